"""BX engine — bounded stand-in (never counted as proof): functions sliced verbatim out of /repo on every run (the VX
extractor), compiled with rustc against std-only shims given in the unit template, and executed on EVERY input of a stated
finite space.  Used only where neither Verus nor Kani/CBMC can take the function (DESIGN.md §9.7)."""
import hashlib
import json
import os
import re
import shutil
import subprocess
import sys
import time

HERE = os.path.dirname(os.path.abspath(__file__))
VERIF = os.path.dirname(HERE)
sys.path.insert(0, os.path.join(VERIF, 'vx'))
import extract  # noqa: E402
import rustlex  # noqa: E402

CACHE = os.path.join(VERIF, '.cache', 'bx')

# group -> (unit file, properties, bounds per tier, description of the enumerated space)
GROUPS = {
    'prune_paths': dict(
        unit='prune_paths.rs', props=['C23'],
        bounds=dict(quick=['34', '1'], thorough=['42', '2']),
        space='every population (open, unknown, inactive, unusable, relay) of paths with open+unknown+inactive+unusable <= {0} and relay <= {1}, '
              'the relay paths in each of the four statuses, inactive paths with pairwise distinct close times in two orders relative to the address numbering',
        nontrivial='populations with at least 30 non-relay paths (below that pruning must do nothing)',
        functions=['prune_non_relay_paths'],
    ),
    # second line behind the Verus unit auth_token: catches rewrites into forms Verus cannot take (exit 2 there)
    'relay_map_bx': dict(
        unit='relay_map.rs', props=['C43'],
        bounds=dict(quick=['2', '0'], thorough=['3', '0']),
        space='every sequence of at most {0} operations drawn from 26 (insert of 2 URLs x 2 configs, insert of a configuration that names ANOTHER URL than the key, remove, set token, on either of two handles; extend and == for '
              'all 4 handle pairs), once with two independent maps and once with the second handle a clone sharing the first one\'s map; each sequence runs on a '
              'watchdog thread (1.5 s) and is compared with plain BTreeMaps after every operation',
        nontrivial='sequences of at least two operations',
        functions=['RelayMap::{eq, empty, contains, get, len, is_empty, insert, remove, extend, with_auth_token}', 'RelayConfig::{new, with_auth_token}'],
    ),
    'preferred_relay_bx': dict(
        unit='preferred_relay.rs', props=['C28'],
        bounds=dict(quick=['2', '0'], thorough=['3', '0']),
        space='every history of at most {0} reports, each with one of 53 latency tables (none, one relay, two relays, one relay measured by two probe kinds, '
              'both — latencies from 9/12/18/30 ms) arriving 1 s, 4 min or 6 min after the previous one, under a mock clock',
        nontrivial='histories of at least two reports',
        functions=['Client::add_report_history_and_set_preferred_relay', 'RelayLatencies::{update_relay, merge, iter, get}'],
    ),
    # second line behind the Verus unit datagrams_split
    'datagrams_split_bx': dict(
        unit='datagrams_split.rs', props=['C16'],
        bounds=dict(quick=['24', '0'], thorough=['64', '0']),
        space='every well-formed batch of 0..={0} bytes with segment size none/1/2/3/4/7/10, with and without an ECN mark, drained by repeated '
              'take_segments(n) for n in 1, 2, 3, 5, usize::MAX',
        nontrivial='batches that carry a segment size',
        functions=['Datagrams::take_segments'],
    ),
    'ping_tracker_bx': dict(
        unit='ping_tracker.rs', props=['C14'],
        bounds=dict(quick=['5', '0'], thorough=['6', '0']),
        space='every history of at most {0} steps drawn from: let 100 ms / 600 ms / 2.5 s / 6 s pass, send a ping, receive the pong of the latest ping, '
              'of an older ping, or with garbage data — under a mock clock, max timeout 5 s',
        nontrivial='histories with at least one ping and one pong',
        functions=['PingTracker::{new, new_ping, new_ping_with_timeout, pong_received, ping_timeout}'],
    ),
    'dns_jitter_bx': dict(
        unit='dns_jitter.rs', props=['C34'],
        bounds=dict(quick=['3000', '0'], thorough=['200000', '0']),
        space='every delay 0..={0} ms plus six huge values (around u64::MAX and the saturation point), each with the random source at 0, 1, 2, 7, MAX/2, MAX-1, MAX',
        nontrivial='delays of at least 3 ms',
        functions=['add_jitter'],
    ),
    # second line behind the Verus unit net_report
    'net_report_bx': dict(
        unit='net_report.rs', props=['C27'],
        bounds=dict(quick=['4', '0'], thorough=['6', '0']),
        space='every sequence of at most {0} probe reports drawn from 16 (https for 2 relays at 20/10/0 ms; QAD v4 and v6 each: 2 relays, latencies 20/10/15/0 ms, '
              'three distinct observed addresses, one report carrying an address of the other family); the latency observations are also split at every '
              'position into two tables that are merged in both orders',
        nontrivial='sequences of at least two reports',
        functions=['Report::{update, mapping_varies_by_dest}', 'RelayLatencies::{update_relay, merge, iter, get}'],
    ),
    # C09: the part the Verus unit rate_bucket leaves undecided (poll_read's use of the bucket), and a second line behind it
    'rate_limited_bx': dict(
        unit='rate_limited.rs', props=['C09'],
        bounds=dict(quick=['3', '0'], thorough=['4', '0']),
        space='every history of at most {0} polls of RateLimited::poll_read (1024-byte buffer) for 4 initial configurations (1000 B/s, 10 B/s, 100 kB/s with burst 1, '
              'no limit), each poll preceded by a clock step from 8 (0/50/100/1000 ms, exactly to / 1 ms before / one period before / half-way to the instant the '
              'reference bucket has refilled) and being one of 8 actions (inner stream pending, 1/64/5000 bytes available, or a live reconfiguration to 1000 B/s, '
              '100 kB/s burst 1, the invalid 5 B/s, or no limit, followed by a 64-byte read) — under a mock clock and mock watch channel',
        nontrivial='histories of at least two polls',
        functions=['RateLimited::{from_watcher, poll_read, record_rate_limited}', 'Bucket::{new, from_config, update_state, consume}'],
    ),
    # second line behind the Verus unit path_selector
    'path_selector_bx': dict(
        unit='path_selector.rs', props=['C24'],
        bounds=dict(quick=['3', '0'], thorough=['3', '1']),
        space='every list of at most {0} candidate paths over 6 addresses (two IPv4, one IPv6, two relay, one custom transport) x 18 statistics (unreadable, 0..10 ms in '
              '1 ms steps, 4.999/5.001/12.999/13/20 ms, 1 h; wide={1}: 12 more values around the thresholds and an extreme), the same address possibly several times, '
              'with the current path being none or any of the 6 addresses (present or not, readable or not)',
        nontrivial='lists of at least two candidates',
        functions=['BiasedRttPathSelector::{default, bias_for, sort_key, select}', 'TransportBias::{primary, backup, with_rtt_advantage}', 'FourTuple::addr_kind',
                   'PathSelection::{none, set, selected}', 'PathSelectionData::network_path', 'PathSelectionContext::current'],
    ),
    # second line behind the Verus unit timestamp
    'timestamp_bx': dict(
        unit='timestamp.rs', props=['C33'],
        bounds=dict(quick=['5', '20000'], thorough=['7', '300000']),
        space='every sequence of at most {0} wall-clock readings from 8 values (0, 1, 2, 999, 1000, 1 s, two adjacent readings in 2023 — forwards, backwards, repeated) '
              'after three process histories (nothing handed out yet, 5, a value ahead of the clock), run deterministically on one thread; plus ONE stress run '
              '(a sample of schedules, not an enumeration) of 4 threads x {1} calls while the clock is moved back and forth, calls ordered by tickets',
        nontrivial='sequences of at least two calls',
        functions=['Timestamp::{now, as_micros}'],
    ),
    # C30: a schedule property; every interleaving of the scenario's lock acquisitions under a controlled scheduler
    'lookup_services_bx': dict(
        unit='lookup_services.rs', props=['C30'],
        bounds=dict(quick=['2', '0'], thorough=['3', '0']),
        space='EVERY schedule (depth-first over all choices of the controlled scheduler; scheduling points = each lock acquisition and each call into a service) of '
              'scenarios with at most {0} threads: add | publish and add | publish;publish for 8 initial states (filter set or not, 0 or 1 service registered, nothing '
              'or d1 published before), publish | publish with two services, add | add, and with 3 threads add | publish | publish and add | add | publish',
        nontrivial='schedules in which the running thread changes at least once',
        functions=['AddressLookupServices::{set_addr_filter, add, add_boxed, len, publish}'],
    ),
    # C38: a schedule property; every interleaving of lookups and publishes at the cache lock / store / DHT boundaries
    'zone_store_bx': dict(
        unit='zone_store.rs', props=['C38'],
        bounds=dict(quick=['2', '0'], thorough=['3', '6']),
        space='EVERY schedule (controlled scheduler; scheduling points = each cache-mutex acquisition and each request to the packet store or the DHT) of the '
              'two-task scenarios lookup | publish, lookup;lookup | publish, lookup | publish;publish, lookup | publish;read from 4 initial states (packet stored and '
              'not cached / stored and cached / nothing stored / nothing stored and an older packet on the DHT), publish | publish and lookup | older-publish; with '
              '{0} >= 3 also lookup | lookup | publish and lookup | publish | publish (stored, or DHT only), explored for every schedule with at most {1} pre-emptive '
              'context switches (0 = not run / unbounded)',
        nontrivial='schedules in which the running task changes at least once',
        functions=['ZoneStore::{new, resolve, get_signed_packet, insert}', 'ZoneCache::{new, resolve, insert_and_resolve, insert_and_resolve_dht, insert, remove}',
                   'CachedZone::{from_signed_packet, is_newer_than, resolve}', 'mutable_item_to_signed_packet'],
    ),
    # C25: a schedule property; the finishing run task against the actor
    'direct_addr_update_bx': dict(
        unit='direct_addr_update.rs', props=['C25'],
        bounds=dict(quick=['3', '3'], thorough=['4', '5']),
        space='EVERY schedule (controlled scheduler; scheduling points = inside a report run, right after the done signal became visible, before each actor step; '
              'run tasks are spawned dynamically) of actor scripts with at most {0} update requests, interleaved with single reactions to a queued done signal, '
              'followed by draining (reacting to done signals until no run task is alive and the channel is empty); scripts with more than 2 requests with at most '
              '{1} pre-emptive context switches (0 = every schedule)',
        nontrivial='schedules in which the running task changes at least once',
        functions=['DirectAddrUpdateState::{new, schedule_run, try_run, run}', 'UpdateReason::is_major', 'Actor::run (the direct_addr_done_rx.recv() arm)'],
    ),
    # C26: a schedule property; home relay changes against status updates of relay connections
    'home_relay_watch_bx': dict(
        unit='home_relay_watch.rs', props=['C26'],
        bounds=dict(quick=['2', '0'], thorough=['3', '4']),
        space='EVERY schedule (controlled scheduler; scheduling points = each access to the shared watchable and each acquisition of the writers\' lock) of: the relay '
              'actor choosing a new home (or none, or a new one and back) while the demoted connection reports one or two statuses (connected / disconnected / '
              'connecting), from "relay 1 is home" and from "no home"; with {0} >= 3 threads also the new home\'s connection reporting concurrently and two successive '
              'home changes, explored with at most {1} pre-emptive context switches (0 = every schedule)',
        nontrivial='schedules in which the running thread changes at least once',
        functions=['HomeRelayWatch::{default, set, clear, set_status, get}', 'RelayStatus::{new, url, is_connected}', 'RelayConnectionState::{eq, is_connected}'],
    ),
    # C06: the relay's connection registry, sequential histories against a reference registry + linearizability of 2-thread scenarios
    'relay_registry_bx': dict(
        unit='relay_registry.rs', props=['C06'],
        bounds=dict(quick=['5', '1'], thorough=['6', '1']),
        space='(a) every sequential history of at most {0} operations from 16 — connect of connection 1/2/3 of endpoint 1 and of one connection each of peers 8 and 9, '
              'their closes, packets 1->8, 1->9, 8->1, draining a queue, disconnect requests for one connection or the whole endpoint; queues hold 2 entries — and, two steps '
              'deeper, every history of connects and closes of FOUR connections of one endpoint — each '
              'compared step by step with a reference registry; (b) if {1} = 1: every schedule of 8 two-thread operation pairs (connect | close, connect | send, close | '
              'send, close | disconnect, connect;close | close, close | close of a peer, connect | disconnect) from two initial states, checked for linearizability '
              '(a close is two steps: the connection\'s actor ends, then it unregisters)',
        nontrivial='histories in which endpoint 1 connects at least twice; all concurrent schedules',
        functions=['Clients::{register, unregister, disconnect, send_packet}', 'Client::{connection_id, start_shutdown, try_send_packet, try_send_peer_gone, try_send_health}'],
    ),
    # C11: the two negotiation statements, sliced out of their (hyper / websocket) handlers
    'version_negotiation_bx': dict(
        unit='version_negotiation.rs', props=['C11'],
        bounds=dict(quick=['3', '0'], thorough=['5', '0']),
        space='every Sec-WebSocket-Protocol header that is a comma-separated list of at most {0} tokens from 17 (the two supported names, the same with leading / '
              'trailing blanks and tabs, unsupported and look-alike names, other case, empty and blank tokens, two names separated by a blank, a name with a '
              'parameter) — for the relay\'s choice; and every single token (or no header) as the relay\'s answer — for the client\'s check',
        nontrivial='headers with at least two tokens',
        functions=['RelayServiceWithNotify::handle_relay_ws_upgrade (the `let protocol_version = ...` statement)', 'ClientBuilder::connect (the `let protocol_version = ...` statement)',
                   'ProtocolVersion::{ALL, all, all_joined, to_str, match_from_str}'],
    ),
    # C31: links the real iroh-dns / iroh-base crates (url, simple-dns, z32 ... cannot be shimmed with std only)
    'endpoint_info_cx': dict(
        cargo='endpoint_info', binary='verif-endpoint-info-roundtrip', unit='(cargo) endpoint_info/src/main.rs', props=['C31'], files='iroh-dns/src/endpoint_info.rs, attrs.rs, pkarr.rs',
        bounds=dict(quick=['2', '0'], thorough=['5', '0']),
        space='every endpoint info whose addresses are a subset of at most {0} of a pool of 20 (8 relay URLs: trailing dot or not, port, path and query, punycode, IPv6 literal, upper '
              'case; 7 socket addresses: v4/v6, unspecified, limits, v4-mapped; 5 custom addresses incl. empty data, 40 bytes, data that spells a socket address) plus one set of 8 '
              'addresses of every kind, combined with 29 user-data values (none, empty, `=` and attribute look-alikes, blanks, control characters, quotes, non-ASCII, 245 bytes) '
              '— all 29 for subsets of at most one address and the 8-address set, 3 of them otherwise; each published as TXT strings and as a signed pkarr packet and resolved',
        nontrivial='infos with at least one address and user data',
        functions=['EndpointInfo::{from_parts, to_txt_strings, from_txt_lookup, to_pkarr_signed_packet, from_pkarr_signed_packet}', 'endpoint_info_to_attrs', 'endpoint_info_from_attrs',
                   'TxtAttrs::{from_parts, from_strings, from_txt_lookup, from_pkarr_signed_packet, to_txt_strings, to_pkarr_signed_packet}', 'SignedPacket::from_txt_strings'],
    ),
    # C35: links the real iroh-dns crate; a scripted resolver under tokio's paused clock
    'resolve_host_cx': dict(
        cargo='resolve_host', binary='verif-resolve-host', unit='(cargo) resolve_host/src/main.rs', props=['C35'], files='iroh-dns/src/dns.rs',
        bounds=dict(quick=['2', '0'], thorough=['4', '0']),
        space='every pair of outcomes of the IPv4 and the IPv6 lookup — 0..={0} addresses, a failure, or never answering (the 5 s timeout, paused clock) — in each of three '
              'completion orders (IPv4 first, IPv6 first, both before the stream is first polled), the stream polled by hand between the two completions; plus five URLs '
              'whose host is an IPv4 literal, an IPv6 literal, or missing',
        nontrivial='both lookups return addresses, at least two in total',
        functions=['DnsResolver::{custom, resolve_host_all}', 'DnsResolverInner::op'],
    ),
    # C08: phase (c) of the registry unit — a disconnect request for an admitted connection against its registration
    'relay_disconnect_bx': dict(
        unit='relay_registry.rs', props=['C08'],
        bounds=dict(quick=['0', '2'], thorough=['0', '2']),
        space='(first argument {0}: the sequential histories of C06 are not run; second argument {1}: phase c) EVERY schedule of two threads — the accept task (admission of '
              'connection 5 of endpoint 1, the rest of the setup, Clients::register) and the embedder (Clients::disconnect by connection id, or for the whole endpoint) — '
              'with and without an older registered connection of the same endpoint, a peer endpoint being registered throughout',
        nontrivial='all schedules',
        functions=['Clients::{register, disconnect}', 'Client::start_shutdown'],
    ),
    # second line behind the Verus units base_keys / custom_addr: the real iroh-base crate through its public API
    'base_keys_cx': dict(
        cargo='base_keys', binary='verif-base-keys', unit='(cargo) base_keys/src/main.rs', props=['C02'], files='iroh-base/src/key.rs, endpoint_addr.rs',
        bounds=dict(quick=['48', '0'], thorough=['2000', '0']),
        space='{0} key pairs derived from seeds 0..{0}: every supported encoding of the public key, the secret key and a signature and back (bytes, slice, string, hex in both '
              'cases, base32 in both cases, z-base-32, postcard, JSON, verifying key); a family of 74 mutations of each of 4 valid encodings (truncated, extended by 1-3 '
              'characters, padded, case changed, 16 replacement characters at 4 positions, empty) given to PublicKey::from_str, PublicKey::from_z32 and SecretKey::from_str; '
              '16 pseudo-random 32-byte strings per key given to PublicKey::from_bytes; sign/verify against a flipped bit, a shorter message, another key, a modified '
              'signature; three custom addresses and an endpoint address per key through binary, string, postcard, JSON, and truncated binary forms',
        nontrivial='all key pairs',
        functions=['PublicKey::as_bytes', 'PublicKey::as_verifying_key', 'PublicKey::deserialize', 'PublicKey::fmt_short', 'PublicKey::from_bytes', 'PublicKey::from_str',
                   'PublicKey::from_verifying_key', 'PublicKey::from_z32', 'PublicKey::try_from_array', 'PublicKey::try_from_slice', 'PublicKey::verify', 'SecretKey::from_array',
                   'SecretKey::from_bytes', 'SecretKey::from_str', 'SecretKey::public', 'SecretKey::sign', 'SecretKey::to_bytes', 'SecretKey::try_from_slice', 'Signature::from_bytes',
                   'Signature::to_bytes', 'Signature::try_from_slice', 'decode_base32_hex',
                   'CustomAddr::data', 'CustomAddr::from_bytes', 'CustomAddr::from_parts', 'CustomAddr::id', 'CustomAddr::to_vec', 'CustomAddrBytes::as_bytes', 'CustomAddrBytes::copy_from_slice', 'CustomAddrBytes::len'],
    ),
    # second line behind the Verus unit signed_packet: the real iroh-dns crate through its public API
    'signed_packet_cx': dict(
        cargo='signed_packet', binary='verif-signed-packet', unit='(cargo) signed_packet/src/main.rs', props=['C32', 'C37'], files='iroh-dns/src/pkarr.rs',
        bounds=dict(quick=['3', '0'], thorough=['24', '0']),
        space='{0} signing keys x 6 record sets (none, one, three incl. a value with `=`, the apex name, a nested name with a 200-byte value, an empty string): the wire form and '
              'the relay payload form and back; EVERY single-byte modification of the wire form with three masks, every truncation, three extensions, a relay payload under '
              'another key — each also through the unchecked constructors with inspection of the result; more_recent_than on every pair of the packets built and on a pair with '
              'equal timestamps',
        nontrivial='packets with at least one record',
        functions=['SignedPacket::as_bytes', 'SignedPacket::encoded_packet', 'SignedPacket::from_bytes', 'SignedPacket::from_bytes_unchecked', 'SignedPacket::from_parts_unchecked',
                   'SignedPacket::from_relay_payload', 'SignedPacket::more_recent_than', 'SignedPacket::public_key', 'SignedPacket::signature', 'SignedPacket::timestamp',
                   'SignedPacket::to_relay_payload', 'Timestamp::as_micros', 'Timestamp::from_be_bytes', 'Timestamp::from_micros', 'Timestamp::to_be_bytes', 'signable'],
    ),
    # second line behind the Verus unit relay_codec, and the only line for the relay-to-client round trip
    'relay_codec_bx': dict(
        unit='relay_codec.rs', props=['C10'],
        bounds=dict(quick=['2', '0'], thorough=['3', '0']),
        space='client-to-relay: ping/pong with 3 payloads and datagrams for 4 ECN values x 4 segment sizes (none, 1, 1200, 65535) x 11 content lengths (1..1200 and the 6 lengths '
              'around the size limit), each through to_bytes, encoded_len, the client sink\'s size check and the relay\'s decoder; relay-to-client under both protocol versions: '
              'ping/pong, endpoint-gone, restarting with 4 duration pairs, datagrams (4 x 4 x up to 8 lengths incl. empty and the limit), every Status value 0..=255 (v2), '
              '4 health texts (v1), each decoded under its own and under the other version; every byte string of at most {0} bytes, and of every valid encoding under 4000 '
              'bytes: the first 120 truncations, 4 masks on each of the first 48 bytes, 8 replacement first bytes — through all 7 decoders',
        nontrivial='all messages',
        functions=['FrameType::{write_to, encoded_len, from_bytes}', 'Datagrams::{write_to, encoded_len, from_bytes}', 'Status::{write_to, encoded_len, from_bytes}',
                   'RelayToClientMsg::{typ, to_bytes, write_to, encoded_len, from_bytes}', 'ClientToRelayMsg::{typ, to_bytes, write_to, encoded_len, from_bytes}', 'Conn::start_send'],
    ),
    # second line behind the Verus unit dns_records
    'dns_records_bx': dict(
        unit='dns_records.rs', props=['C36'],
        bounds=dict(quick=['2', '3'], thorough=['2', '4']),
        space='every answer section of at most {0} records whose owner names are sequences of at most {1} labels from 6 (the signer\'s z-base-32 key, another key, `_iroh`, `*`, '
              '`example`, the signer\'s key in upper case; names longer than 2 labels only if they mention the key or a wildcard), of type TXT / A / SOA / NS (later positions take every '
              '7th candidate), each with an accept-all and a rejecting caller filter',
        nontrivial='answer sections with a name of at least two labels',
        functions=['signed_packet_to_hickory_records_without_origin'],
    ),
    # second line behind the Verus unit path_state
    'path_state_bx': dict(
        unit='path_state.rs', props=['C22'],
        bounds=dict(quick=['5', '0'], thorough=['7', '0']),
        space='every history of at most {0} operations from 11: a resolve request, the oldest waiting connect being cancelled, an opened path (IP or relay), address-lookup results (none, one, two addresses), a path being '
              'abandoned, an address lookup finishing with or without an error — each waiter\'s channel read after every step and compared with a reference that restates the property',
        nontrivial='histories of at least three operations with a resolve request',
        functions=['RemotePathState::{new, insert_open_path, abandoned_path, insert_multiple, resolve_remote, resolve_requests_is_empty, address_lookup_finished, is_empty, emit_pending_resolve_requests, prune_paths}', 'prune_non_relay_paths'],
    ),
    # second line behind the Verus unit lookup_stream
    'lookup_stream_bx': dict(
        unit='lookup_stream.rs', props=['C29'],
        bounds=dict(quick=['3', '0'], thorough=['4', '0']),
        space='no service, one service, and every pair of services, each service either not resolving at all or producing a script of at most {0} events from item / error / '
              'a pending poll; the stream polled until it ends and twice more',
        nontrivial='configurations with two services',
        functions=['AddressLookupServices::{add_boxed, resolve}', 'AddressLookupStream::{empty, new, poll_next}'],
    ),
    # second line behind the Verus unit relay_recv
    'relay_recv_bx': dict(
        unit='relay_recv.rs', props=['C17'],
        bounds=dict(quick=['2', '0'], thorough=['3', '0']),
        space='every queue of at most {0} batches (content lengths 0/1/3/4/5/8/9/12 x segment size none/1/2/4/5/9 where the batch holds more than one segment), for receive '
              'buffers of 1/4/8/16 bytes and 1/2/3 slots; poll_recv is called until the input is drained, with a waker that counts wake-ups and a queue that records whether it '
              'kept the waker',
        nontrivial='queues with at least one multi-segment batch',
        functions=['RelayTransport::{poll_recv, poll_recv_queue}', 'Datagrams::take_segments'],
    ),
    # C05: phase (d) of the registry unit — what a client sends never costs another client its connection
    'relay_forward_bx': dict(
        unit='relay_registry.rs', props=['C05'],
        bounds=dict(quick=['4', '3'], thorough=['5', '3']),
        space='(second argument {1}: phase d) every history of at most {0}+2 operations from 10 — connects of a sender, a receiver and a second sender, packets sender->receiver, '
              'second sender->receiver, receiver->sender and to an endpoint that is not connected, draining the receiver\'s queue (capacity 2), the receiver\'s actor ending, its '
              'unregistering; after every send: no live connection of another endpoint is asked to shut down or leaves the registry, its queue only grows, and the send returns '
              'forwarded / dropped / refused(full) / refused(closed) as the registry state implies',
        nontrivial='histories with at least three sends',
        functions=['Clients::{register, unregister, send_packet}', 'Client::{try_send_packet, start_shutdown}'],
    ),
    # second line behind the Verus unit relay_forward (C04), on the registry side
    'relay_delivery_bx': dict(
        unit='relay_registry.rs', props=['C04'],
        bounds=dict(quick=['5', '4'], thorough=['6', '4']),
        space='(second argument {1}: phase e) every history of at most {0} operations from 12 — connects of two connections of endpoint 1 and of peers 8 and 9, the close of '
              'the second connection, the first connection\'s actor ending, draining either queue (capacity 3), packets 8->1, 9->1, 1->8, 8->9, each carrying its step number '
              'as contents — and EVERY schedule of sender 8 sending two packets to endpoint 1 while (i) sender 9 sends two, (ii) a second connection of endpoint 1 takes over, '
              '(iii) the active connection closes and an older one resumes; after every step / schedule: a packet shows up only in the queue of the addressed endpoint\'s '
              'active connection, once, with its sender\'s id and contents, behind what was queued before. NOT covered here: the connection actor that writes the queue to '
              'the socket (Verus unit relay_forward), ECN and segment size (the datagram batch is a shim carrying one byte)',
        nontrivial='histories with at least two packets; all schedules',
        functions=['Clients::{register, unregister, send_packet}', 'Client::try_send_packet'],
    ),
    # sampled end-to-end second line for C04: the real relay server and clients on loopback
    'relay_e2e_cx': dict(
        cargo='relay_e2e', binary='verif-relay-e2e', unit='(cargo) relay_e2e/src/main.rs', props=['C04'],
        files='iroh-relay/src/server/client.rs, iroh-relay/src/server/clients.rs, iroh-relay/src/server/http_server.rs, iroh-relay/src/server/streams.rs',
        bounds=dict(quick=['200', '0'], thorough=['2000', '0']),
        space='SAMPLED, not exhaustive: two scripted runs of the real relay server (127.0.0.1, plain HTTP) and real relay clients on one single-threaded tokio runtime — '
              '(1) endpoints 1 and 3 each write {0} distinguishable datagram batches (12..911 bytes, every ECN value, with and without a segment size) to endpoint 2, '
              'alternating, and endpoint 1 a quarter as many to endpoint 3, before endpoint 2 reads anything; (2) endpoint 1 writes {0}/2 batches to endpoint 2, a second '
              'connection of endpoint 2 takes over, endpoint 1 writes {0}/2 more. The interleaving of the relay\'s tasks is whatever the runtime produces for that script',
        nontrivial='both runs',
        functions=['the whole path Client::send -> relay connection actor (read) -> Clients::send_packet -> destination connection actor (write) -> Client::next'],
    ),
    # second line behind the Verus unit tls_verifier (C01): the real crate with its verification hooks switched on
    'tls_handshake_cx': dict(
        cargo='tls_handshake', binary='verif-tls-handshake', unit='(cargo) tls_handshake/src/main.rs', props=['C01'],
        rustflags='--cfg n0_computer_iroh_verif', target_suffix='verifcfg',
        files='iroh/src/tls/name.rs, iroh/src/tls/verifier.rs, iroh/src/tls/resolver.rs',
        bounds=dict(quick=['12', '0'], thorough=['120', '0']),
        space='(1) name codec: {0} ids — decode(encode(id)); every single-character substitution (42 characters for the first three ids, 6 for the rest), deletion, '
              'insertion of 3 characters at every position, every truncation, 21 label / case / padding / suffix variants of each encoded name; (2) verify_server_cert on 4 '
              'dialed ids x (the right SPKI, the other ids\' SPKIs, every byte of the SPKI flipped 3 ways, every truncation, 3 extensions, the bare key) x 8 server names x '
              '0..2 intermediates; (3) real in-memory TLS 1.3 handshakes: client dials key d, server presents SPKI(key c) and signs with key s, for all d, c, s of 4 keys, '
              'with a valid signature, a garbage signature, a certificate with a trailing byte, or iroh\'s own resolver; the mirror image for client authentication; (4) each of the curve\'s 8 small-order points that EndpointId accepts, presented with the '
              'constant signature (R = neutral element, s = 0) that only strict verification rejects, by a server and by a client',
        nontrivial='mutated names, mutated certificates, all handshakes',
        functions=['tls::name::{encode, decode}', 'ServerCertificateVerifier::{verify_server_cert, verify_tls13_signature}', 'ClientCertificateVerifier::{verify_client_cert, verify_tls13_signature}',
                   'Ed25519Dalek::verify_signature', 'ResolveRawPublicKeyCert / IrohSecretKey (signing)'],
    ),
    # second line behind the Verus unit addr_map and the Kani harnesses (C18): schedules
    'addr_map_bx': dict(
        unit='addr_map.rs', props=['C18'],
        bounds=dict(quick=['5', '1'], thorough=['7', '1']),
        space='(a) every history of at most {0} calls from 7 — get of three keys, lookup of the three addresses the generator can produce first and of an address it never '
              'produces — with an address generator that yields every value twice (the uniqueness loop has to go round), compared with a reference bijection after every call; '
              '(b) EVERY schedule of two threads looking up the same key / different keys in opposite orders / a get against lookups, and (if {1} = 1) three threads with at '
              'most 3 pre-emptions. NOT covered: the classification of socket addresses (Kani harnesses), the real random generator, the three concrete maps of remote_map.rs',
        nontrivial='histories with at least three gets; all schedules',
        functions=['AddrMap::{default, get, lookup}', 'AddrMapInner::default'],
    ),
    # the dispatch the Kani harnesses of C19 leave undecided
    'ip_dispatch_bx': dict(
        unit='ip_dispatch.rs', props=['C19'],
        bounds=dict(quick=['3', '2'], thorough=['4', '3']),
        space='every set of at most {0} bind configurations from a pool of 8 (IPv4: the wildcard default route, a /8, a /16 inside it, a /24; IPv6: the wildcard default route, '
              'two link-local /128 on scopes 2 and 3, a global /32), given to bind in pool order and reversed, then every sequence of at most {1} datagrams from 16 — IPv4 / IPv6 '
              'destinations inside and outside the prefixes, link-local destinations on scopes 2, 3, 4, with and without a source address (matching a socket, matching none, of '
              'the other family), two relay paths (one unknown), two custom transports (one unknown); after every datagram the transport that was handed it is compared with an '
              'independent statement of the rule. Sockets, relay and custom senders are recording shims; binding never fails here',
        nontrivial='at least two sockets and two datagrams',
        functions=['TransportsSender::poll_send', 'IpTransports::{bind, create_sender}', 'IpTransportsSender accessors (pulled in on demand)', 'IpSender::{is_valid_send_addr, is_valid_default_addr}',
                   'ip::Config::{is_ipv4, is_ipv6, prefix_len, is_default, is_required, is_valid_send_addr, is_valid_default_addr}'],
    ),
    # second line behind the Verus unit captive_portal and the Kani harness (C13)
    'captive_portal_bx': dict(
        unit='captive_portal.rs', props=['C13'],
        bounds=dict(quick=['2', '0'], thorough=['3', '0']),
        space='requests without the challenge header, with an empty one, with EVERY header value of at most {0} bytes (all byte values a header value can hold), with every '
              'length 0..=70 of allowed characters, and with every single-byte substitution (all byte values) at the first, a middle and the last position of well-formed '
              'challenges of length 1, 2, 32, 62, 63 and of length 64; the response (status, X-Iroh-Response header) is compared with the stated rule',
        nontrivial='challenges of at least two bytes',
        functions=['serve_no_content_handler', 'is_challenge_char'],
    ),
    # second line behind the Verus units packet_store / dns_zone / signed_packet (C37): the real store with its hook on
    'packet_store_cx': dict(
        cargo='packet_store', binary='verif-packet-store', unit='(cargo) packet_store/src/main.rs', props=['C37'],
        rustflags='--cfg n0_computer_iroh_verif', target_suffix='verifcfg',
        files='iroh-dns-server/src/store/signed_packets.rs, iroh-dns-server/src/store.rs',
        bounds=dict(quick=['3', '0'], thorough=['5', '0']),
        space='every sequence (with repetition) of at most {0} publishes of five packets of one key — timestamps 1000, 2000, 2000 with another payload, 3000, 4000 — against a '
              'fresh in-memory store, once with all publishes inside one write transaction and once with a transaction per publish, a second key\'s packet published in '
              'between; after every publish the reply and the stored packet are compared with the rule',
        nontrivial='sequences of at least three publishes',
        functions=['SignedPacketStore::{open, upsert, get}', 'Actor::{run, handle_message}', 'Tables', 'serialize / deserialize / get_packet'],
    ),
    # second line behind the Verus unit hooks
    'hooks_bx': dict(
        unit='hooks.rs', props=['C42'],
        bounds=dict(quick=['3', '0'], thorough=['5', '0']),
        space='outgoing: every list of at most {0} before-connect hooks (each accepting or rejecting) x 5 protocol-name settings (normal, empty, empty with an additional name, '
              'additional names incl. an empty one, a duplicate) x remote = another id / the endpoint\'s own id x endpoint open / closed x address resolution succeeding / failing two '
              'ways x the QUIC connect call succeeding / failing; after the handshake: every list of at most {0} hooks, each accepting or rejecting with its own code and reason, with '
              'the connection\'s registration succeeding or failing',
        nontrivial='lists of at least two hooks',
        functions=['EndpointHooksList::{before_connect, after_handshake}', 'Endpoint::connect_with_opts', 'conn_from_noq_conn (the handshake-completion block)'],
    ),
    # second line behind the Verus unit relay_handshake
    'relay_handshake_bx': dict(
        unit='relay_handshake.rs', props=['C03'],
        bounds=dict(quick=['1', '0'], thorough=['1', '0']),
        space='an adversarial client holding the secret keys of S = {{A}} or {{A, B}}: 8 auth-header variants (none, honest, material of another TLS session, naming a foreign id K '
              'but signed by A, broken signature, not base64, not deserializable, the second key) x 9 answers to the challenge (none, honest, naming K signed by A, a signature '
              'over another challenge, broken signature, a frame of the wrong type, an undeserializable frame, an empty frame, the second key) x TLS exporter present / absent x '
              'access decision none / allow / deny (argument {0} unused)',
        nontrivial='runs with a header and an answer',
        functions=['serverside', 'ServerChallenge::{new, message_to_sign}', 'ClientAuth::{new, verify}', 'KeyMaterialClientAuth::{new, verify}', 'read_frame', 'deserialize_frame',
                   'SuccessfulAuthentication::{authorize_if, accept, deny}'],
    ),
    # second line behind the Verus unit router (dispatch part)
    'router_bx': dict(
        unit='router.rs', props=['C40'],
        bounds=dict(quick=['1', '0'], thorough=['1', '0']),
        space='one incoming connection through the accept arm for every combination of: no filter / filter verdict accept, retry, reject, ignore x remote address validated or not x '
              'Incoming::accept failing or not x negotiated protocol alpha / beta (both registered) / gamma / empty / none x handshake failing or not; plus the closed-endpoint case '
              '(argument {0} unused)',
        nontrivial='combinations with a filter',
        functions=['RouterBuilder::spawn (the `endpoint.accept()` arm of the run loop)', 'handle_connection', 'ProtocolMap::{get, insert}'],
    ),
    # second line behind the Verus unit builder_bind
    'builder_bind_bx': dict(
        unit='builder_bind.rs', props=['C20'], takes_deferred=True,
        bounds=dict(quick=['3', '0'], thorough=['4', '0']),
        space='every multiset of at most {0} bind calls over 20 (family, prefix length, explicit default flag, is_required) combinations — implicit default (/0), '
              'non-default (/24), explicit default, explicit non-default /0, invalid prefix, full-length explicit default, for IPv4 and IPv6 — each in EVERY order',
        nontrivial='sequences of at least two bind calls',
        functions=['Builder::bind_addr_with_opts'],
    ),
    'auth_token_bx': dict(
        unit='auth_token.rs', props=['C12'],
        bounds=dict(quick=['3', '0'], thorough=['4', '0']),
        space='every request with at most {0} Authorization header values drawn from 10 values (Bearer/bearer/BEARER with one or two spaces, other '
              'schemes, no space, leading space, empty token, non-text bytes before/after the scheme) and one of 8 URI queries (none, empty, token first/later/twice, '
              'look-alike name, bare name, empty segment with a plus)',
        nontrivial='requests with at least one Authorization header and a query',
        functions=['ClientRequest::auth_token', 'ClientRequest::query_pairs'],
    ),
}


def groups_for(prop):
    return [g for g, d in GROUPS.items() if prop in d['props']]


def all_props():
    return sorted({p for d in GROUPS.values() for p in d['props']})


def run_group(g, prop, tier='quick', only=None):
    t0 = time.time()
    d = GROUPS[g]
    res = dict(group=g, status='undecided', reason=None, failures=[], cmds=[], functions=[], trusted_base=[], bounded=True)
    work = os.path.join(CACHE, f'{g}.{os.getpid()}')
    os.makedirs(work, exist_ok=True)
    if d.get('cargo'):
        try:
            return run_cargo_group(g, d, res, work, tier, only, t0)
        finally:
            res['wall_s'] = round(time.time() - t0, 2)
            shutil.rmtree(work, ignore_errors=True)
    try:
        import run as vxrun
        extra_tail = ''
        auto = []
        std_imported = set()
        for _round in range(7):
            old_mode = rustlex.VERUS_MODE
            try:
                text, regions, log, unit = extract.generate(os.path.join(HERE, 'units', d['unit']), extra_tail or None)
            except extract.LostAnchor as e:
                res['reason'] = f'lost anchor: {e}'
                return res
            except (extract.UnitError, rustlex.LexError) as e:
                res['reason'] = f'unit error: {e}'
                return res
            finally:
                rustlex.VERUS_MODE = old_mode
            src = os.path.join(work, 'main.rs')
            with open(src, 'w') as f:
                f.write(text)
            cmd = ['rustc', '--edition', '2024', '-O', '-o', os.path.join(work, 'main'), src]
            p = subprocess.run(cmd + ['--error-format=json'], capture_output=True, text=True, timeout=600)
            if p.returncode == 0:
                break
            # a change may call a helper that did not exist when the unit was written: extract it verbatim and retry
            diags = []
            for ln in p.stderr.split('\n'):
                if ln.startswith('{'):
                    try:
                        diags.append(json.loads(ln))
                    except Exception:
                        pass
            missing = [m for m in vxrun.find_missing_callees(diags, regions) if m not in auto]
            # a change may use a std name the unit does not import yet: take the import from the source file's own `use std::..`
            std_added = False
            for dd in diags:
                mm = re.search(r'cannot find (?:type|trait|value|struct, variant or union type|function|macro|derive macro) `(\w+)` in this scope|use of undeclared type `(\w+)`|failed to resolve: use of undeclared type `(\w+)`', dd.get('message', ''))
                name = next((g for g in (mm.groups() if mm else ()) if g), None)
                if name and name not in std_imported:
                    path = std_import_for(name, regions)
                    if path:
                        std_imported.add(name)
                        extra_tail += f'\nuse {path};   // imported by the source file; a change started using it\n'
                        std_added = True
                    else:
                        # ... or a type the change defined next to the code under test: extracted verbatim (derives kept minimal)
                        item = source_type_item(name, regions)
                        if item:
                            std_imported.add(name)
                            extra_tail += f'\n//@item {item[0]} {item[1]} {name} stripattrs derive={item[2]}\n'
                            std_added = True
            # ... or rely on a conversion (`impl From<..> for T`) that the change added next to the code under test
            for dd in diags:
                text = dd.get('message', '') + ' ' + (dd.get('rendered') or '')
                for tname in set(re.findall(r'`(\w+): From<', text)) | set(re.findall(r'\b(\w+)::from\b', text)):
                    for blk in from_impls_for(tname, regions):
                        key = hashlib.sha256(blk.encode()).hexdigest()
                        if key not in std_imported:
                            std_imported.add(key)
                            extra_tail += '\n// conversion added by a change, taken verbatim from the source file\n' + blk + '\n'
                            std_added = True
            if std_added and _round < 6:
                continue
            if not missing or _round == 6:
                errs = [dd.get('message', '') for dd in diags if dd.get('level') == 'error']
                res['reason'] = 'rustc rejected the extracted text (changed code uses something the shims lack): ' + ' | '.join(errs)[:600]
                res['tool_output'] = [dd.get('rendered', '') for dd in diags if dd.get('level') == 'error'][:4]
                return res
            for (owner, fname, relpath, src_owner) in missing:
                auto.append((owner, fname, relpath, src_owner))
                if owner == '#const':
                    extra_tail += f'\n//@item {relpath} const {fname}\n'
                elif owner:
                    # a unit may state the impl header of a generic owner: `// @impl-header Owner: impl<K, V> Owner<K, V> where ...`
                    hm = re.search(r'^// @impl-header ' + re.escape(owner) + r': (.+)$', open(os.path.join(HERE, 'units', d['unit'])).read(), re.M)
                    header = hm.group(1).strip() if hm else f'impl {owner}'
                    extra_tail += f'\n{header} {{\n//@fn {relpath} {src_owner}::{fname}\n//@end\n}}\n'
                else:
                    extra_tail += f'\n//@fn {relpath} {fname}\n//@end\n'
        res['auto_extracted'] = [f'{o + "::" if o and o != "#const" else ""}{f} ({r})' for (o, f, r, _s) in auto]
        res['generated_sha256'] = hashlib.sha256(text.encode()).hexdigest()
        res['rewrites'] = log
        for r in regions:
            if r.kind == 'fn':
                i = r.info
                res['functions'].append(dict(unit=f'bx:{g}', function=r.name, file=i['src_file'], lines=[i['src_start'], i['src_end']], sha256=i['sha256'],
                                             dropped_attrs=i.get('dropped_attrs', [])))
        res['trusted_base'] = [
            'executable std-only shims of the dependencies as written in bx/units/%s' % d['unit'],
            'rustc and std are correct; the harness oracle restates the property (see bx/units/%s)' % d['unit'],
        ]
        res['cmds'].append(' '.join(cmd).replace(work, '<generated ' + g + '>'))
        bounds = list(d['bounds'][tier if tier in d['bounds'] else 'quick'])
        args = [os.path.join(work, 'main')] + bounds + ([only] if only else [])
        res['cmds'].append(('<generated %s>/main ' % g) + ' '.join(bounds + ([only] if only else [])))
        try:
            p = subprocess.run(args, capture_output=True, text=True, timeout=3000)
        except subprocess.TimeoutExpired:
            res['reason'] = 'bounded run timed out'
            return res
        if p.returncode == 3 and 'HARNESS-STUCK' in p.stderr:
            res['reason'] = 'the harness could not run the changed code: ' + p.stderr.strip().splitlines()[-1][:300]
            return res
        if p.returncode != 0:
            # a panic inside the function under test is itself a violation of "never panics"; report it as a failure
            res['status'] = 'failed'
            res['failures'].append(dict(obligation='no-panic', class_='other', message='the extracted function panicked: ' + p.stderr.strip()[-400:],
                                        concrete=dict(stderr=p.stderr[-1500:])))
            return res
        out = json.loads(p.stdout)
        res['evaluations'] = out['evaluations']
        res['nontrivial'] = out['nontrivial']
        res['samples'] = out['samples']
        res['bound'] = d['space'].format(*bounds)
        res['nontrivial_rule'] = d['nontrivial']
        res['fail_counts'] = out['fail_counts']
        seen = set()
        for f in out['failures']:
            key = (f['obligation'], f['class'])
            if key in seen:
                continue
            seen.add(key)
            n = next((c['count'] for c in out['fail_counts'] if c['obligation'] == f['obligation'] and c['class'] == f['class']), None)
            res['failures'].append(dict(obligation=f'{f["obligation"]}[{f["class"]}]', class_=f['class'],
                                        message=f'{f["detail"]} on input {f["input"]} ({n} failing inputs of this kind within the bound)',
                                        concrete=dict(input=f['input'], detail=f['detail'], failing_inputs_of_this_kind=n,
                                                      rerun=f'<harness> {" ".join(bounds)} "<input>"')))
        res['status'] = 'failed' if res['failures'] else 'ok'
        return res
    finally:
        res['wall_s'] = round(time.time() - t0, 2)
        shutil.rmtree(work, ignore_errors=True)


def _expand_use(prefix, body, out):
    """expands `a::{b::C, d::{E, F as G}}` into full paths; out maps the imported name to its path"""
    body = body.strip()
    if not body:
        return
    if body.startswith('{') and body.endswith('}'):
        depth, cur, parts = 0, '', []
        for ch in body[1:-1]:
            if ch == '{':
                depth += 1
            elif ch == '}':
                depth -= 1
            if ch == ',' and depth == 0:
                parts.append(cur)
                cur = ''
            else:
                cur += ch
        parts.append(cur)
        for part in parts:
            _expand_use(prefix, part, out)
        return
    m = re.match(r'^([\w:]+?)::(\{.*\})$', body, re.S)
    if m:
        _expand_use(prefix + m.group(1) + '::', m.group(2), out)
        return
    path = prefix + body
    m = re.match(r'^(.*?)\s+as\s+(\w+)$', path)
    name = m.group(2) if m else path.split('::')[-1]
    if name not in ('self', '*'):
        out[name] = path


def std_import_for(name, regions):
    files = {r.info['src_file'] for r in regions if r.kind == 'fn' and r.info.get('src_file')}
    for rel in sorted(files):
        try:
            txt = open(os.path.join(extract.REPO, rel), encoding='utf-8').read()
        except OSError:
            continue
        out = {}
        for m in re.finditer(r'^use\s+((?:std|core|alloc)::[^;]+);', txt, re.M | re.S):
            _expand_use('', re.sub(r'\s+', ' ', m.group(1)).replace(' ', '') if ' as ' not in m.group(1) else re.sub(r'\s+', ' ', m.group(1)), out)
        if name in out:
            return out[name]
    return None


def source_type_item(name, regions):
    files = {r.info['src_file'] for r in regions if r.kind == 'fn' and r.info.get('src_file')}
    for rel in sorted(files):
        try:
            txt = open(os.path.join(extract.REPO, rel), encoding='utf-8').read()
        except OSError:
            continue
        m = re.search(r'^\s*(?:pub(?:\([a-z]+\))?\s+)?(enum|struct)\s+' + re.escape(name) + r'\b', txt, re.M)
        if m:
            # std derives the source gives the type are kept (comparisons, hashing, Default); others (serde, derive_more ..) are not
            head = txt[max(0, m.start() - 400):m.start()]
            dm = re.findall(r'#\[derive\(([^)]*)\)\]', head.split('}')[-1])
            std = [d for d in ('Copy', 'PartialEq', 'Eq', 'Hash', 'PartialOrd', 'Ord', 'Default') if any(re.search(r'\b' + d + r'\b', x) for x in dm)]
            return rel, m.group(1), ','.join(['Debug', 'Clone'] + std)
    return None


def from_impls_for(tname, regions):
    """verbatim `impl<..> From<..> for <tname> {..}` blocks found in the source files of the extracted functions"""
    out = []
    files = {r.info['src_file'] for r in regions if r.kind == 'fn' and r.info.get('src_file')}
    for rel in sorted(files):
        try:
            txt = open(os.path.join(extract.REPO, rel), encoding='utf-8').read()
        except OSError:
            continue
        for m in re.finditer(r'^impl\s*(?:<[^>{]*>)?\s*From<[^{]*>\s*for\s+' + re.escape(tname) + r'\b[^{]*\{', txt, re.M):
            depth, i = 0, m.end() - 1
            while i < len(txt):
                if txt[i] == '{':
                    depth += 1
                elif txt[i] == '}':
                    depth -= 1
                    if depth == 0:
                        break
                i += 1
            out.append(txt[m.start():i + 1])
    return out


def run_cargo_group(g, d, res, work, tier, only, t0):
    """A bounded stand-in that links the REAL crates of /repo (path dependencies, offline, /repo's own Cargo.lock) instead of
    extracting functions: used where the functions under test need dependencies no std-only shim can stand in for."""
    repo = extract.REPO
    src_dir = os.path.join(HERE, 'cargo_units', d['cargo'])
    shutil.copytree(os.path.join(src_dir, 'src'), os.path.join(work, 'src'))
    with open(os.path.join(work, 'Cargo.toml'), 'w') as f:
        f.write(open(os.path.join(src_dir, 'Cargo.toml.in')).read().replace('@REPO@', repo))
    shutil.copy(os.path.join(repo, 'Cargo.lock'), os.path.join(work, 'Cargo.lock'))
    target = os.path.join(CACHE, 'cargo-target' + ('-' + d['target_suffix'] if d.get('target_suffix') else ''))
    env = dict(os.environ, CARGO_NET_OFFLINE='true', CARGO_TARGET_DIR=target, VERIF_BX_SHIMS=os.path.join(HERE, 'shims'))
    if d.get('rustflags'):
        env['RUSTFLAGS'] = d['rustflags']     # the cfg flag that switches /repo's guarded verification hooks on
    cmd = ['cargo', 'build', '--release', '--offline', '--quiet', '--manifest-path', os.path.join(work, 'Cargo.toml')]
    res['cmds'].append(f'(cd <generated {g}>) CARGO_TARGET_DIR=<cache> ' + (f'RUSTFLAGS="{d["rustflags"]}" ' if d.get('rustflags') else '') + ' '.join(cmd[:5]))
    p = subprocess.run(cmd, capture_output=True, text=True, env=env, timeout=3000)
    if p.returncode != 0:
        res['reason'] = 'cargo could not build the harness against the current tree (the public API it uses changed, or the tree does not compile): ' + p.stderr.strip()[-600:]
        res['tool_output'] = [p.stderr[-3000:]]
        return res
    res['functions'] = [dict(unit=f'bx:{g}', function=fn, file=d.get('files', ''), lines=[0, 0], sha256='(real crate linked, not extracted)', dropped_attrs=[]) for fn in d['functions']]
    res['trusted_base'] = ['the real crates of /repo and their dependencies are linked unchanged (no shims); rustc, cargo and std are correct',
                           'the harness oracle restates the property (see bx/cargo_units/%s/src/main.rs)' % d['cargo']]
    res['generated_sha256'] = hashlib.sha256(open(os.path.join(src_dir, 'src', 'main.rs'), 'rb').read()).hexdigest()
    bounds = list(d['bounds'][tier if tier in d['bounds'] else 'quick'])
    binary = os.path.join(target, 'release', d['binary'])
    args = [binary] + bounds + ([only] if only else [])
    res['cmds'].append(('<cache>/release/%s ' % d['binary']) + ' '.join(bounds + ([only] if only else [])))
    try:
        p = subprocess.run(args, capture_output=True, text=True, timeout=3000)
    except subprocess.TimeoutExpired:
        res['reason'] = 'bounded run timed out'
        return res
    if p.returncode == 3 and 'HARNESS-' in p.stderr:
        res['reason'] = 'the harness could not run its scenario: ' + p.stderr.strip().splitlines()[-1][:300]
        return res
    if p.returncode != 0:
        res['status'] = 'failed'
        res['failures'].append(dict(obligation='no-panic', class_='other', message='the harness process died: ' + p.stderr.strip()[-400:], concrete=dict(stderr=p.stderr[-1500:])))
        return res
    out = json.loads(p.stdout)
    res['evaluations'] = out['evaluations']
    res['nontrivial'] = out['nontrivial']
    res['samples'] = out['samples']
    res['bound'] = d['space'].format(*bounds)
    res['nontrivial_rule'] = d['nontrivial']
    res['fail_counts'] = out['fail_counts']
    seen = set()
    for f in out['failures']:
        key = (f['obligation'], f['class'])
        if key in seen:
            continue
        seen.add(key)
        n = next((c['count'] for c in out['fail_counts'] if c['obligation'] == f['obligation'] and c['class'] == f['class']), None)
        res['failures'].append(dict(obligation=f'{f["obligation"]}[{f["class"]}]', class_=f['class'],
                                    message=f'{f["detail"]} on input {f["input"]} ({n} failing inputs of this kind within the bound)',
                                    concrete=dict(input=f['input'], detail=f['detail'], failing_inputs_of_this_kind=n, rerun=f'<harness> {" ".join(bounds)} "<input>"')))
    res['status'] = 'failed' if res['failures'] else 'ok'
    return res


if __name__ == '__main__':
    r = run_group(sys.argv[1], GROUPS[sys.argv[1]]['props'][0], sys.argv[2] if len(sys.argv) > 2 else 'quick')
    r.pop('rewrites', None)
    print(json.dumps(r, indent=1))
