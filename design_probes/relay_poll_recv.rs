
use vstd::prelude::*;
use vstd::std_specs::cmp::OrdSpec;
use std::num::NonZeroU16;
macro_rules! assert_eq { ($a:expr, $b:expr $(, $($t:tt)*)?) => { vstd::pervasive::runtime_assert($a == $b) }; }
macro_rules! assert { ($a:expr $(, $($t:tt)*)?) => { vstd::pervasive::runtime_assert($a) }; }
macro_rules! error { ($($t:tt)*) => {}; }
macro_rules! warn { ($($t:tt)*) => {}; }
verus! {
use core::task::Poll;
#[verifier::accept_recursive_types(T)]
#[verifier::external_type_specification]
pub struct ExPoll<T>(core::task::Poll<T>);

#[verifier::external_body]
pub struct Context { c: u8 }
pub uninterp spec fn waker_registered(cx: Context) -> bool;

pub mod io {
    use vstd::prelude::*;
    pub struct Error;
    pub type Result<T> = core::result::Result<T, Error>;
    pub enum ErrorKind { NotConnected }
    impl Error {
        #[verifier::external_body]
        pub fn new(k: ErrorKind, m: &str) -> Error { Error }
    }
    #[verifier::external_body]
    pub struct IoSliceMut<'a> { b: &'a mut [u8] }
    impl<'a> IoSliceMut<'a> {
        pub uninterp spec fn cap(&self) -> nat;
        #[verifier::external_body]
        pub fn len(&self) -> (r: usize) ensures r == self.cap() { unimplemented!() }
    }
    impl<'a> core::ops::Index<core::ops::RangeTo<usize>> for IoSliceMut<'a> {
        type Output = [u8];
        #[verifier::external_body]
        fn index(&self, r: core::ops::RangeTo<usize>) -> (o: &[u8]) { unimplemented!() }
    }
    impl<'a> core::ops::IndexMut<core::ops::RangeTo<usize>> for IoSliceMut<'a> {
        #[verifier::external_body]
        fn index_mut(&mut self, r: core::ops::RangeTo<usize>) -> (o: &mut [u8]) { unimplemented!() }
    }
}
#[verifier::external_body]
pub struct Bytes { inner: Vec<u8> }
impl View for Bytes { type V = Seq<u8>; uninterp spec fn view(&self) -> Seq<u8>; }
impl Bytes {
    #[verifier::external_body]
    pub fn len(&self) -> (r: usize) ensures r == self@.len() { unimplemented!() }
    #[verifier::external_body]
    pub fn is_empty(&self) -> (r: bool) ensures r == (self@.len() == 0) { unimplemented!() }
    #[verifier::external_body]
    pub fn split_to(&mut self, at: usize) -> (r: Bytes)
        requires at <= old(self)@.len()
        ensures r@ == old(self)@.subrange(0, at as int), final(self)@ == old(self)@.subrange(at as int, old(self)@.len() as int)
    { unimplemented!() }
}
impl core::ops::Deref for Bytes {
    type Target = [u8];
    #[verifier::external_body]
    fn deref(&self) -> (r: &[u8]) ensures r@ == self@ { unimplemented!() }
}
impl Default for Bytes {
    #[verifier::external_body]
    fn default() -> (r: Bytes) ensures r@ == Seq::<u8>::empty() { unimplemented!() }
}
pub assume_specification<T: Default> [std::mem::take] (dest: &mut T) -> (r: T)
    ensures r == *old(dest), call_ensures(T::default, (), *final(dest));
pub assume_specification<T: Ord> [std::cmp::min] (a: T, b: T) -> (r: T)
    ensures r == (if a.cmp_spec(&b) == core::cmp::Ordering::Greater { b } else { a });
pub assume_specification<T> [bool::then_some] (b: bool, t: T) -> (r: Option<T>)
    ensures r == if b { Some(t) } else { None::<T> };


pub assume_specification<T, U, F: FnOnce(T) -> U> [Option::<T>::map_or] (o: Option<T>, d: U, f: F) -> (r: U)
    ensures match o { Some(v) => call_ensures(f, (v,), r), None => r == d };
pub mod noq_proto { #[derive(Clone, Copy)] pub enum EcnCodepoint { Ect0, Ect1, Ce } }
pub mod noq_udp {
    pub struct RecvMeta { pub len: usize, pub stride: usize, pub ecn: Option<u8>, pub dst_ip: Option<u8> }
}
pub struct Datagrams {
    pub ecn: Option<noq_proto::EcnCodepoint>,
    pub segment_size: Option<NonZeroU16>,
    pub contents: Bytes,
}
#[derive(Clone)]
pub struct RelayUrl { pub u: u64 }
#[derive(Clone, Copy)]
pub struct EndpointId { pub k: u64 }
pub struct RelayRecvDatagram { pub url: RelayUrl, pub src: EndpointId, pub datagrams: Datagrams }
pub struct Addr { pub a: u64 }
impl From<(RelayUrl, EndpointId)> for Addr { #[verifier::external_body] fn from(x: (RelayUrl, EndpointId)) -> Addr { unimplemented!() } }
pub struct RecvInfo { pub remote: Addr }
impl RecvInfo { #[verifier::external_body] pub fn from_addr(remote: Addr) -> RecvInfo { unimplemented!() } }

#[verifier::external_body]
pub struct Receiver { r: u8 }
impl Receiver {
    #[verifier::external_body]
    pub fn poll_recv(&mut self, cx: &mut Context) -> (r: Poll<Option<RelayRecvDatagram>>)
        ensures r is Pending ==> waker_registered(*final(cx)), waker_registered(*old(cx)) ==> waker_registered(*final(cx))
    { unimplemented!() }
}
pub struct RelayTransport { pub relay_datagram_recv_queue: Receiver, pub pending_item: Option<RelayRecvDatagram> }
}

verus! {
impl Datagrams {
pub fn take_segments(&mut self, num_segments: usize) -> (r: Datagrams)
        requires num_segments >= 1
        ensures
            r.contents@ + final(self).contents@ == old(self).contents@,
            old(self).contents@.len() > 0 ==> r.contents@.len() > 0,
            old(self).segment_size is None ==> final(self).contents@.len() == 0,
    {
        let Some(segment_size) = self.segment_size else {
            let contents = std::mem::take(&mut self.contents);
            return Datagrams {
                ecn: self.ecn,
                segment_size: None,
                contents,
            };
        };

        let usize_segment_size = usize::from(u16::from(segment_size));
        let max_content_len = num_segments.saturating_mul(usize_segment_size);
        let contents = self
            .contents
            .split_to(std::cmp::min(max_content_len, self.contents.len()));

        let is_datagram_batch = num_segments > 1 && usize_segment_size < contents.len();

        // If this left our batch with only one more datagram, then remove the segment size
        // to uphold the invariant that single-datagram batches don't have a segment size set.
        if self.contents.len() <= usize_segment_size {
            self.segment_size = None;
        }

        Datagrams {
            ecn: self.ecn,
            segment_size: is_datagram_batch.then_some(segment_size),
            contents,
        }
    }
}
impl RelayTransport {
pub fn poll_recv(
        &mut self,
        cx: &mut Context,
        bufs: &mut [io::IoSliceMut<'_>],
        metas: &mut [noq_udp::RecvMeta],
        recv_infos: &mut [RecvInfo],
    ) -> (r: Poll<io::Result<usize>>)
        ensures
            r is Pending ==> waker_registered(*final(cx)),
    {
        assert_eq!(bufs.len(), metas.len(), "non matching bufs & metas");
        assert_eq!(
            bufs.len(),
            recv_infos.len(),
            "non matching bufs & recv_infos"
        );
        let mut num_msgs = 0;
        for i in 0..bufs.len()
            invariant
                bufs.len() == metas.len(), bufs.len() == recv_infos.len(), num_msgs <= i,
                num_msgs == 0 ==> i == 0,
        {
            let buf_out = &mut bufs[i];
            let meta_out = &mut metas[i];
            let recv_info = &mut recv_infos[i];
            let dm = match self.poll_recv_queue(cx) {
                Poll::Ready(Some(recv)) => recv,
                Poll::Ready(None) => {
                    error!("relay_recv_channel closed");
                    return Poll::Ready(Err(io::Error::new(
                        io::ErrorKind::NotConnected,
                        "connection closed",
                    )));
                }
                Poll::Pending => {
                    break;
                }
            };

            // This *tries* to make the datagrams fit into our buffer by re-batching them.
            let num_segments = dm
                .datagrams
                .segment_size
                .map_or(1, |ss: NonZeroU16| -> (n: usize) ensures n == buf_out.cap() / (ss@ as nat) { buf_out.len() / u16::from(ss) as usize });
            let datagrams = dm.datagrams.take_segments(num_segments);
            let empty_after = dm.datagrams.contents.is_empty();
            let dm = RelayRecvDatagram {
                datagrams,
                src: dm.src,
                url: dm.url.clone(),
            };
            // take_segments can leave `self.pending_item` empty, in that case we clear it
            if empty_after {
                self.pending_item = None;
            }

            if buf_out.len() < dm.datagrams.contents.len() {
                // Our receive buffer isn't big enough to process this datagram.
                // Continuing would cause a panic.
                warn!(
                    noq_buf_len = buf_out.len(),
                    datagram_len = dm.datagrams.contents.len(),
                    segment_size = ?dm.datagrams.segment_size,
                    "dropping received datagram: noq buffer too small"
                );
                break;
                // In theory we could put some logic in here to fragment the datagram in case
                // we still have enough room in our `buf_out` left to fit a couple of
                // `dm.datagrams.segment_size`es, but we *should* have cut those datagrams
                // to appropriate sizes earlier in the pipeline (just before we put them
                // into the `relay_datagram_recv_queue` in the `ActiveRelayActor`).
                // So the only case in which this happens is we receive a datagram via the relay
                // that's essentially bigger than our configured `max_udp_payload_size`.
                // In that case we drop it and let MTU discovery take over.
            }

            buf_out[..dm.datagrams.contents.len()].copy_from_slice(&dm.datagrams.contents);
            meta_out.len = dm.datagrams.contents.len();
            meta_out.stride = dm
                .datagrams
                .segment_size
                .map_or(dm.datagrams.contents.len(), |s: NonZeroU16| -> (n: usize) ensures n == s@ { u16::from(s) as usize });
            meta_out.ecn = None;
            meta_out.dst_ip = None;

            *recv_info = RecvInfo::from_addr((dm.url, dm.src).into());
            num_msgs += 1;
        }

        // If we have any msgs to report, they are in the first `num_msgs_total` slots
        if num_msgs > 0 {
            assert!(num_msgs <= metas.len());
            Poll::Ready(Ok(num_msgs))
        } else {
            Poll::Pending
        }
    }
fn poll_recv_queue<'a>(
        &'a mut self,
        cx: &mut Context,
    ) -> (r: Poll<Option<&'a mut RelayRecvDatagram>>)
        ensures
            r is Pending ==> waker_registered(*final(cx)) && *final(self) == *old(self),
    {
        // Borrow checker doesn't quite understand an if let Some(_)... here
        if self.pending_item.is_some() {
            return Poll::Ready(self.pending_item.as_mut());
        }

        let item = match self.relay_datagram_recv_queue.poll_recv(cx) {
            Poll::Ready(Some(item)) => item,
            Poll::Ready(None) => return Poll::Ready(None),
            Poll::Pending => return Poll::Pending,
        };

        Poll::Ready(Some(self.pending_item.insert(item)))
    }
}
}
fn main(){}
