use vstd::prelude::*;
verus! {
use core::task::Poll;
#[verifier::accept_recursive_types(T)]
#[verifier::external_type_specification]
pub struct ExPoll<T>(core::task::Poll<T>);

pub struct Item { pub n: usize }
pub struct Q { pub pending_item: Option<Item> }

#[verifier::external_body]
pub fn chan_poll() -> (r: Poll<Option<Item>>) { unimplemented!() }

impl Q {
    fn poll_recv_queue<'a>(&'a mut self) -> (r: Poll<Option<&'a mut Item>>)
        ensures
            r matches Poll::Pending ==> *final(self) == *old(self),
    {
        if self.pending_item.is_some() {
            return Poll::Ready(self.pending_item.as_mut());
        }
        let item = match chan_poll() {
            Poll::Ready(Some(item)) => item,
            Poll::Ready(None) => return Poll::Ready(None),
            Poll::Pending => return Poll::Pending,
        };
        Poll::Ready(Some(self.pending_item.insert(item)))
    }

    fn take_all(&mut self, bufs: &mut [usize]) -> (num: usize)
    {
        let mut num_msgs = 0;
        for i in 0..bufs.len()
            invariant num_msgs <= i
        {
            let buf_out = &mut bufs[i];
            let dm = match self.poll_recv_queue() {
                Poll::Ready(Some(recv)) => recv,
                Poll::Ready(None) => { return num_msgs; }
                Poll::Pending => { break; }
            };
            if dm.n > 0 { dm.n = dm.n - 1; }
            let empty_after = dm.n == 0;
            if empty_after { self.pending_item = None; }
            *buf_out = 1;
            num_msgs += 1;
        }
        num_msgs
    }
}
}
fn main(){}
