use vstd::prelude::*;
macro_rules! trace { ($($t:tt)*) => {}; }
verus! {
use std::hash::Hash;
use std::fmt;

// ---- shim: rustc_hash::FxHashMap as a spec Map
#[verifier::external_body]
#[verifier::reject_recursive_types(K)]
#[verifier::reject_recursive_types(V)]
pub struct FxHashMap<K, V> { k: core::marker::PhantomData<(K, V)> }
impl<K, V> View for FxHashMap<K, V> { type V = Map<K, V>; uninterp spec fn view(&self) -> Map<K, V>; }
impl<K: Eq + Hash, V> FxHashMap<K, V> {
    #[verifier::external_body]
    pub fn get<'a>(&'a self, k: &K) -> (r: Option<&'a V>)
        ensures match r { Some(v) => self@.contains_key(*k) && *v == self@[*k], None => !self@.contains_key(*k) }
    { unimplemented!() }
    #[verifier::external_body]
    pub fn contains_key(&self, k: &K) -> (r: bool) ensures r == self@.contains_key(*k) { unimplemented!() }
    #[verifier::external_body]
    pub fn insert(&mut self, k: K, v: V) -> (r: Option<V>)
        ensures final(self)@ == old(self)@.insert(k, v)
    { unimplemented!() }
}

pub trait MappedAddr: Sized {
    fn generate() -> Self;
}

#[verifier::reject_recursive_types(K)]
#[verifier::reject_recursive_types(V)]
pub struct AddrMapInner<K, V> {
    addrs: FxHashMap<K, V>,
    lookup: FxHashMap<V, K>,
}

impl<K, V> AddrMapInner<K, V> {
    pub closed spec fn inv(&self) -> bool {
        &&& forall|k: K| self.addrs@.contains_key(k) ==> self.lookup@.contains_key(self.addrs@[k]) && self.lookup@[self.addrs@[k]] == k
        &&& forall|v: V| self.lookup@.contains_key(v) ==> self.addrs@.contains_key(self.lookup@[v]) && self.addrs@[self.lookup@[v]] == v
    }
    pub closed spec fn fwd(&self) -> Map<K, V> { self.addrs@ }
}


#[verifier::exec_allows_no_decreases_clause]
pub fn get<K, V>(inner: &mut AddrMapInner<K, V>, key: &K) -> (r: V)
    where
        K: Eq + Hash + Clone + fmt::Debug,
        V: MappedAddr + Eq + Hash + Copy + fmt::Debug,
    requires old(inner).inv()
    ensures
        final(inner).inv(),
        final(inner).fwd().contains_key(*key) && final(inner).fwd()[*key] == r,
        forall|k: K| old(inner).fwd().contains_key(k) ==> final(inner).fwd().contains_key(k) && final(inner).fwd()[k] == old(inner).fwd()[k],
{
        match inner.addrs.get(key) {
            Some(addr) => *addr,
            None => {
                let addr;
                loop
                    invariant inner.inv(), *inner == *old(inner), !inner.addrs@.contains_key(*key)
                    ensures !inner.lookup@.contains_key(addr), inner.inv(), *inner == *old(inner), !inner.addrs@.contains_key(*key)
                {
                    let candidate = V::generate();
                    if !inner.lookup.contains_key(&candidate) {
                        addr = candidate; break;
                    }
                };
                inner.addrs.insert(key.clone(), addr);
                inner.lookup.insert(addr, key.clone());
                trace!(?addr, ?key, "generated new addr");
                addr
            }
        }
}
}
fn main(){}
