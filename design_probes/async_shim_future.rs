use vstd::prelude::*;
macro_rules! trace { ($($t:tt)*) => {}; }
macro_rules! e { ($($t:tt)*) => { mk_err() }; }
verus! {
pub struct Error;
#[verifier::external_body]
pub fn mk_err() -> Error { Error }

pub struct Bytes;
#[derive(PartialEq, Eq, Clone, Copy)]
pub enum FrameType { A, B, C }

#[verifier::external_body]
#[verifier::reject_recursive_types(T)]
pub struct Fut<T> { t: core::marker::PhantomData<T> }
#[verifier::external]
impl<T> core::future::Future for Fut<T> { type Output = T; fn poll(self: core::pin::Pin<&mut Self>, cx: &mut core::task::Context<'_>) -> core::task::Poll<T> { unimplemented!() } }
pub trait BytesStreamSink {
    fn send(&mut self, b: Bytes) -> Fut<Result<(), Error>>;
    fn try_next(&mut self) -> Fut<Result<Option<Bytes>, Error>>;
}
pub trait ExportKeyingMaterial { }

#[verifier::external_body]
pub fn frame_type_from_bytes(b: &mut Bytes) -> (r: Result<FrameType, Error>) { unimplemented!() }




async fn read_frame(
    io: &mut impl BytesStreamSink,
    expected_types: &[FrameType],
) -> (r: Result<(FrameType, Bytes), Error>)
{
    let mut payload = io
        .try_next()
        .await
        .map_err(|err| e!(Error::Websocket, anyerr!(err)))?
        .ok_or_else(|| e!(Error::UnexpectedEnd))?;

    let frame_type = frame_type_from_bytes(&mut payload)?;
    trace!(?frame_type, "Reading frame");
    Ok((frame_type, payload))
}

pub async fn clientside(
    io: &mut (impl BytesStreamSink + ExportKeyingMaterial),
) -> (r: Result<u8, Error>)
{
    let (tag, frame) = read_frame(
        io,
        &[
            FrameType::A,
            FrameType::B,
        ],
    )
    .await?;
    match tag {
        FrameType::A => Ok(1),
        FrameType::B => Ok(2),
        _ => unreachable!(),
    }
}
}
fn main(){}
