use vstd::prelude::*;
use std::num::NonZeroU16;
use vstd::std_specs::cmp::OrdSpec;
verus! {

// ---- trusted shim: bytes::Bytes viewed as Seq<u8>
#[verifier::external_body]
#[verifier::accept_recursive_types]
pub struct Bytes { inner: Vec<u8> }

impl View for Bytes { type V = Seq<u8>; uninterp spec fn view(&self) -> Seq<u8>; }

impl Bytes {
    #[verifier::external_body]
    pub fn len(&self) -> (r: usize) ensures r == self@.len() { self.inner.len() }
    #[verifier::external_body]
    pub fn split_to(&mut self, at: usize) -> (r: Bytes)
        requires at <= old(self)@.len()
        ensures r@ == old(self)@.subrange(0, at as int), final(self)@ == old(self)@.subrange(at as int, old(self)@.len() as int)
    { unimplemented!() }
}
pub assume_specification<T: Default> [std::mem::take] (dest: &mut T) -> (r: T)
    ensures r == *old(dest), call_ensures(T::default, (), *final(dest));
impl Default for Bytes {
    #[verifier::external_body]
    fn default() -> (r: Bytes) ensures r@ == Seq::<u8>::empty() { unimplemented!() }
}
#[verifier::external_body]
pub fn mem_take_bytes(b: &mut Bytes) -> (r: Bytes)
    ensures r@ == old(b)@, final(b)@ == Seq::<u8>::empty()
{ unimplemented!() }

pub assume_specification<T: Ord> [std::cmp::min] (a: T, b: T) -> (r: T)
    ensures r == (if a.cmp_spec(&b) == core::cmp::Ordering::Greater { b } else { a });

pub assume_specification<T> [bool::then_some] (b: bool, t: T) -> (r: Option<T>)
    ensures r == if b { Some(t) } else { None::<T> };

#[derive(Clone, Copy)]
pub enum EcnCodepoint { Ect0, Ect1, Ce }

pub struct Datagrams {
    pub ecn: Option<EcnCodepoint>,
    pub segment_size: Option<NonZeroU16>,
    pub contents: Bytes,
}

impl Datagrams {
    pub fn take_segments(&mut self, num_segments: usize) -> (r: Datagrams)
      ensures r.contents@ + final(self).contents@ == old(self).contents@
    {
        let Some(segment_size) = self.segment_size else {
            let contents = std::mem::take(&mut self.contents);
            return Datagrams {
                ecn: self.ecn,
                segment_size: None,
                contents,
            };
        };

        let usize_segment_size = usize::from(u16::from(segment_size));
        let max_content_len = num_segments.saturating_mul(usize_segment_size);
        let contents = self
            .contents
            .split_to(std::cmp::min(max_content_len, self.contents.len()));

        let is_datagram_batch = num_segments > 1 && usize_segment_size < contents.len();

        if self.contents.len() <= usize_segment_size {
            self.segment_size = None;
        }

        Datagrams {
            ecn: self.ecn,
            segment_size: is_datagram_batch.then_some(segment_size),
            contents,
        }
    }
}
}
fn main(){}
