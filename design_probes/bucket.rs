use vstd::prelude::*;
use vstd::std_specs::cmp::OrdSpec;
macro_rules! ensure { ($cond:expr, $($t:tt)*) => { if !$cond { return Err(mk_invalid_bucket_config()); } }; }
verus! {

// ---------- trusted shim: n0_future::time (tokio time), modelled in integer nanoseconds
pub mod time {
    use vstd::prelude::*;
    #[derive(Clone, Copy)]
    #[verifier::external_body]
    pub struct Instant { ns: u128 }
    #[derive(Clone, Copy)]
    #[verifier::external_body]
    pub struct Duration { ns: u128 }
    impl View for Instant { type V = int; uninterp spec fn view(&self) -> int; }
    impl View for Duration { type V = int; uninterp spec fn view(&self) -> int; }

    pub uninterp spec fn now_spec() -> int; // ghost clock: value of the last Instant::now()
    impl Instant {
        #[verifier::external_body]
        pub fn now() -> (r: Instant) ensures r@ >= 0 { unimplemented!() }
        #[verifier::external_body]
        pub fn saturating_duration_since(&self, earlier: Instant) -> (r: Duration)
            ensures r@ == (if self@ >= earlier@ { self@ - earlier@ } else { 0 }) { unimplemented!() }
    }

    impl core::ops::Mul<u32> for Duration {
        type Output = Duration;
        #[verifier::external_body]
        fn mul(self, rhs: u32) -> Duration { unimplemented!() }
    }
    impl vstd::std_specs::ops::MulSpecImpl<u32> for Duration {
        open spec fn obeys_mul_spec() -> bool { false }
        open spec fn mul_req(self, rhs: u32) -> bool { self@ * rhs <= dur_max() }
        uninterp spec fn mul_spec(self, rhs: u32) -> Duration;
    }

    impl core::ops::Mul<Duration> for u32 {
        type Output = Duration;
        #[verifier::external_body]
        fn mul(self, rhs: Duration) -> Duration { unimplemented!() }
    }
    impl vstd::std_specs::ops::MulSpecImpl<Duration> for u32 {
        open spec fn obeys_mul_spec() -> bool { false }
        open spec fn mul_req(self, rhs: Duration) -> bool { self * rhs@ <= dur_max() }
        uninterp spec fn mul_spec(self, rhs: Duration) -> Duration;
    }
    impl core::ops::Add<Duration> for Instant {
        type Output = Instant;
        #[verifier::external_body]
        fn add(self, rhs: Duration) -> Instant { unimplemented!() }
    }
    impl vstd::std_specs::ops::AddSpecImpl<Duration> for Instant {
        open spec fn obeys_add_spec() -> bool { false }
        open spec fn add_req(self, rhs: Duration) -> bool { self@ + rhs@ <= inst_max() }
        uninterp spec fn add_spec(self, rhs: Duration) -> Instant;
    }
    impl core::ops::AddAssign<Duration> for Instant {
        #[verifier::external_body]
        fn add_assign(&mut self, rhs: Duration) { unimplemented!() }
    }
    pub open spec fn inst_max() -> int { dur_max() }
    pub open spec fn dur_max() -> int { (u64::MAX as int) * 1_000_000_000 + 999_999_999 }
    impl Duration {
        #[verifier::external_body]
        pub fn as_millis(&self) -> (r: u128) ensures r == self@ / 1_000_000, 0 <= self@ <= dur_max() { unimplemented!() }
    }
}
pub struct InvalidBucketConfig;
#[verifier::external_body]
pub fn mk_invalid_bucket_config() -> InvalidBucketConfig { InvalidBucketConfig }

pub assume_specification [i64::saturating_mul] (a: i64, b: i64) -> (r: i64)
    ensures r == (if a * b > i64::MAX { i64::MAX as int } else if a * b < i64::MIN { i64::MIN as int } else { a * b });


pub open spec fn clamp_i64(x: int) -> int { if x > i64::MAX { i64::MAX as int } else if x < i64::MIN { i64::MIN as int } else { x } }
pub assume_specification [i64::saturating_add] (a: i64, b: i64) -> (r: i64) ensures r == clamp_i64(a + b);
pub assume_specification [i64::saturating_sub] (a: i64, b: i64) -> (r: i64) ensures r == clamp_i64(a - b);
pub assume_specification [i64::saturating_neg] (a: i64) -> (r: i64) ensures r == clamp_i64(-a);
pub assume_specification<T: Ord> [std::cmp::min] (a: T, b: T) -> (r: T)
    ensures r == (if a.cmp_spec(&b) == core::cmp::Ordering::Greater { b } else { a });
pub assume_specification<T, E> [Result::<T, E>::unwrap_or] (r: Result<T, E>, d: T) -> (o: T)
    ensures o == (match r { Ok(v) => v, Err(_) => d });
pub struct Bucket {
    fill: i64,
    max: i64,
    last_fill: time::Instant,
    refill_period: time::Duration,
    refill: i64,
}

impl Bucket {
    pub closed spec fn wf(&self) -> bool {
        self.max > 0 && self.refill > 0 && self.fill <= self.max && ((self.refill_period@ / 1_000_000) as u32) > 0
    }
    pub closed spec fn sfill(&self) -> int { self.fill as int }
    pub fn new(
        max: i64,
        bytes_per_second: i64,
        refill_period: time::Duration,
    ) -> (r: Result<Self, InvalidBucketConfig>)
        ensures r matches Ok(b) ==> b.wf() && b.sfill() == max
    {
        // milliseconds is the tokio timer resolution
        let refill = bytes_per_second.saturating_mul(refill_period.as_millis() as i64) / 1000;
        ensure!(
            max > 0 && bytes_per_second > 0 && refill_period.as_millis() as u32 > 0 && refill > 0,
            InvalidBucketConfig {
                max,
                bytes_per_second,
                refill_period
            }
        );
        Ok(Self {
            fill: max,
            max,
            last_fill: time::Instant::now(),
            refill_period,
            refill,
        })
    }

    fn update_state(&mut self)
        requires old(self).wf()
        ensures final(self).wf()
    {
        let now = time::Instant::now();
        // div safety: self.refill_period.as_millis() is checked to be non-null in constructor
        let refill_periods = now.saturating_duration_since(self.last_fill).as_millis() as u32
            / self.refill_period.as_millis() as u32;
        if refill_periods == 0 {
            // Nothing to do - we won't refill yet
            return;
        }

        self.fill = self
            .fill
            .saturating_add(refill_periods as i64 * self.refill);
        self.fill = std::cmp::min(self.fill, self.max);
        self.last_fill += self.refill_period * refill_periods;
    }

    pub fn consume(&mut self, bytes: usize) -> (r: Result<(), time::Instant>)
        requires old(self).wf()
        ensures final(self).wf()
    {
        let bytes = i64::try_from(bytes).unwrap_or(i64::MAX);
        self.update_state();

        self.fill = self.fill.saturating_sub(bytes);

        if self.fill > 0 {
            return Ok(());
        }

        let missing = self.fill.saturating_neg();

        let periods_needed = (missing / self.refill) + 1;
        let periods_needed = u32::try_from(periods_needed).unwrap_or(u32::MAX);

        Err(self.last_fill + periods_needed * self.refill_period)
    }
}
}
fn main(){}
