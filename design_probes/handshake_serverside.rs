
use vstd::prelude::*;
macro_rules! trace { ($($t:tt)*) => {}; }
macro_rules! e { ($($t:tt)*) => { mk_err() }; }
macro_rules! anyerr { ($($t:tt)*) => { () }; }
macro_rules! ensure { ($cond:expr, $($t:tt)*) => { if !$cond { return Err(mk_err()); } }; }
verus! {
pub struct Error;
#[verifier::external_body] pub fn mk_err() -> Error { Error }

#[verifier::external_body]
#[verifier::reject_recursive_types(T)]
pub struct Fut<T> { t: core::marker::PhantomData<T> }
#[verifier::external]
impl<T> core::future::Future for Fut<T> { type Output = T; fn poll(self: core::pin::Pin<&mut Self>, cx: &mut core::task::Context<'_>) -> core::task::Poll<T> { unimplemented!() } }

pub struct Bytes;
#[derive(PartialEq, Eq, Clone, Copy)]
pub enum FrameType { ServerChallenge, ClientAuth, ServerConfirmsAuth, ServerDeniesAuth, Other }
impl FrameType {
    #[verifier::external_body]
    pub fn from_bytes(b: &mut Bytes) -> (r: Result<FrameType, Error>) { unimplemented!() }
}

#[derive(Clone, Copy, PartialEq, Eq)]
pub struct PublicKey { pub b: [u8; 32] }
#[derive(Clone)]
pub struct HeaderValue;
impl HeaderValue {
    #[verifier::external_body]
    pub fn as_ref(&self) -> (r: &[u8]) { unimplemented!() }
}

pub uninterp spec fn ed_valid(pk: PublicKey, msg: Seq<u8>, sig: Seq<u8>) -> bool;
pub uninterp spec fn fresh(ch: [u8; 16]) -> bool;
pub uninterp spec fn challenge_msg(ch: [u8; 16]) -> Seq<u8>;

pub struct ServerChallenge { pub challenge: [u8; 16] }
pub struct ClientAuth { pub public_key: PublicKey, pub signature: [u8; 64] }
pub struct KeyMaterialClientAuth { pub public_key: PublicKey, pub signature: [u8; 64], pub key_material_suffix: [u8; 16] }
#[derive(Clone)]
pub struct ServerDeniesAuth { pub reason: String }
#[derive(Clone, Copy, PartialEq, Eq)]
pub enum Mechanism { SignedChallenge, SignedKeyMaterial }
pub struct SuccessfulAuthentication { pub client_key: PublicKey, pub mechanism: Mechanism }

pub trait Frame { fn tag() -> FrameType; }

pub trait HasSession { spec fn session(&self) -> int; }
pub uninterp spec fn km_of(session: int, pk: PublicKey) -> Option<Seq<u8>>;
pub trait ExportKeyingMaterial: HasSession { }
pub trait BytesStreamSink: HasSession {
    spec fn sent(&self) -> Seq<FrameType>;
    fn try_next(&mut self) -> (r: Fut<Result<Option<Bytes>, Error>>)
        ensures final(self).session() == old(self).session(), final(self).sent() == old(self).sent();
}

pub open spec fn km_ok<I: ExportKeyingMaterial>(io: I, a: KeyMaterialClientAuth) -> bool {
    match km_of(io.session(), a.public_key) {
        Some(m) => m.len() == 32 && m.subrange(16, 32) == a.key_material_suffix@ && ed_valid(a.public_key, m.subrange(0, 16), a.signature@),
        None => false,
    }
}

impl ClientAuth {
    #[verifier::external_body]
    pub fn verify(&self, challenge: &ServerChallenge) -> (r: Result<(), Error>)
        ensures r is Ok <==> ed_valid(self.public_key, challenge_msg(challenge.challenge), self.signature@)
    { unimplemented!() }
}
impl KeyMaterialClientAuth {
    #[verifier::external_body]
    pub fn verify<I: ExportKeyingMaterial>(&self, io: &I) -> (r: Result<(), Error>)
        ensures r is Ok <==> km_ok(*io, *self)
    { unimplemented!() }
}


pub mod data_encoding {
    use vstd::prelude::*;
    pub struct DecodeError;
    pub struct Encoding;
    impl Encoding {
        #[verifier::external_body]
        pub fn decode(&self, b: &[u8]) -> (r: Result<Vec<u8>, DecodeError>) { unimplemented!() }
    }
    pub const BASE64URL_NOPAD: Encoding = Encoding;
}
pub mod postcard {
    use vstd::prelude::*;
    pub struct PcError;
    #[verifier::external_body]
    pub fn from_bytes<T>(b: &[u8]) -> (r: Result<T, PcError>) { unimplemented!() }
}
pub mod rand {
    use vstd::prelude::*;
    pub struct ThreadRng;
    #[verifier::external_body]
    pub fn rng() -> ThreadRng { unimplemented!() }
}
impl ServerChallenge {
    #[verifier::external_body]
    pub fn new<R>(rng: &mut R) -> (r: ServerChallenge) ensures fresh(r.challenge) { unimplemented!() }
}
#[verifier::external_body]
pub async fn write_frame<F: Frame, I: BytesStreamSink + ExportKeyingMaterial>(io: &mut I, frame: F) -> (r: Result<(), Error>)
    ensures final(io).session() == old(io).session()
{ unimplemented!() }
#[verifier::external_body]
pub fn deserialize_frame<F>(frame: Bytes) -> (r: Result<F, Error>) { unimplemented!() }
impl Frame for ServerChallenge { fn tag() -> FrameType { FrameType::ServerChallenge } }
impl Frame for &ServerChallenge { fn tag() -> FrameType { FrameType::ServerChallenge } }
impl Frame for ClientAuth { fn tag() -> FrameType { FrameType::ClientAuth } }
impl Frame for ServerDeniesAuth { fn tag() -> FrameType { FrameType::ServerDeniesAuth } }
impl ClientAuth { pub const TAG: FrameType = FrameType::ClientAuth; }

pub assume_specification<T: PartialEq> [<[T]>::contains] (s: &[T], x: &T) -> (r: bool)
    ensures r ==> s@.contains(*x);

pub open spec fn authenticated<I: ExportKeyingMaterial + BytesStreamSink>(k: PublicKey, m: Mechanism, io0: I, io1: I) -> bool {
    match m {
        Mechanism::SignedKeyMaterial => exists|a: KeyMaterialClientAuth| a.public_key == k && km_ok(io0, a),
        Mechanism::SignedChallenge => exists|ch: [u8; 16], sig: [u8; 64]| fresh(ch) && ed_valid(k, challenge_msg(ch), sig@),
    }
}
}

verus! {
async fn read_frame(
    io: &mut impl BytesStreamSink,
    expected_types: &[FrameType],
) -> (r: Result<(FrameType, Bytes), Error>)
    ensures
        final(io).sent() == old(io).sent(),
        final(io).session() == old(io).session(),
        r matches Ok((t, _)) ==> expected_types@.contains(t),
{
    let mut payload = io
        .try_next()
        .await
        .map_err(|err| e!(Error::Websocket, anyerr!(err)))?
        .ok_or_else(|| e!(Error::UnexpectedEnd))?;

    let frame_type = FrameType::from_bytes(&mut payload)?;
    trace!(?frame_type, "Reading frame");
    ensure!(
        expected_types.contains(&frame_type),
        Error::UnexpectedFrameType {
            frame_type,
            expected_types: expected_types.to_vec()
        }
    );

    Ok((frame_type, payload))
}
pub async fn serverside(
    io: &mut (impl BytesStreamSink + ExportKeyingMaterial),
    client_auth_header: Option<HeaderValue>,
) -> (r: Result<SuccessfulAuthentication, Error>)
    ensures
        r matches Ok(a) ==> authenticated(a.client_key, a.mechanism, *old(io), *final(io)),
{
    if let Some(client_auth_header) = client_auth_header {
        let client_auth_bytes = data_encoding::BASE64URL_NOPAD
            .decode(client_auth_header.as_ref())
            .map_err(|_w1| {
                e!(Error::ClientAuthHeaderInvalid {
                    value: client_auth_header.clone()
                })
            })?;

        let client_auth: KeyMaterialClientAuth =
            postcard::from_bytes(&client_auth_bytes).map_err(|_w2| {
                e!(Error::ClientAuthHeaderInvalid {
                    value: client_auth_header.clone()
                })
            })?;

        if client_auth.verify(io).is_ok() {
            trace!(?client_auth.public_key, "authentication succeeded via keying material");
            return Ok(SuccessfulAuthentication {
                client_key: client_auth.public_key,
                mechanism: Mechanism::SignedKeyMaterial,
            });
        }
        // Verification not succeeding is part of normal operation: The TLS exporter isn't required to match.
        // We'll fall back to verification that takes another round trip more time.
    }

    let challenge = ServerChallenge::new(&mut rand::rng());
    write_frame(io, &challenge).await?;

    let (_, frame) = read_frame(io, &[ClientAuth::TAG]).await?;
    let client_auth: ClientAuth = deserialize_frame(frame)?;

    if let Err(err) = client_auth.verify(&challenge) {
        trace!(?client_auth.public_key, ?err, "authentication failed");
        let denial = ServerDeniesAuth {
            reason: "signature invalid".into(),
        };
        write_frame(io, denial.clone()).await?;
        Err(e!(Error::ServerDeniedAuth {
            reason: denial.reason
        }))
    } else {
        trace!(?client_auth.public_key, "authentication succeeded via challenge");
        Ok(SuccessfulAuthentication {
            client_key: client_auth.public_key,
            mechanism: Mechanism::SignedChallenge,
        })
    }
}
}
fn main(){}
