
use vstd::prelude::*;
macro_rules! e { ($($t:tt)*) => { mk_err() }; }
macro_rules! anyerr { ($($t:tt)*) => { () }; }
verus! {
pub struct SignedPacketVerifyError;
#[verifier::external_body] pub fn mk_err() -> SignedPacketVerifyError { SignedPacketVerifyError }
pub const MAX_DNS_PACKET_SIZE: usize = 1000;
pub const HEADER_SIZE: usize = 104;
pub const MAX_SIGNED_PACKET_SIZE: usize = HEADER_SIZE + MAX_DNS_PACKET_SIZE;
pub uninterp spec fn valid_point(b: Seq<u8>) -> bool;
pub uninterp spec fn dns_parses(b: Seq<u8>) -> bool;
pub uninterp spec fn ed_valid(pk: Seq<u8>, msg: Seq<u8>, sig: Seq<u8>) -> bool;
pub uninterp spec fn signable_spec(ts: u64, v: Seq<u8>) -> Seq<u8>;

pub struct KeyErr; pub struct SigErr; pub struct DnsErr;
#[verifier::external] impl core::fmt::Debug for KeyErr { fn fmt(&self, f: &mut core::fmt::Formatter<'_>) -> core::fmt::Result { Ok(()) } }
pub struct PublicKey { pub b: [u8; 32] }
impl<'a> TryFrom<&'a [u8]> for PublicKey {
    type Error = KeyErr;
    #[verifier::external_body]
    fn try_from(b: &'a [u8]) -> (r: Result<PublicKey, KeyErr>)
        ensures r is Ok <==> (b@.len() == 32 && valid_point(b@)), r matches Ok(k) ==> k.b@ == b@
    { unimplemented!() }
}
impl PublicKey {
    #[verifier::external_body]
    pub fn verify(&self, msg: &Vec<u8>, sig: &Signature) -> (r: Result<(), SigErr>)
        ensures r is Ok <==> ed_valid(self.b@, msg@, sig.b@)
    { unimplemented!() }
}
pub struct Signature { pub b: [u8; 64] }
impl Signature {
    #[verifier::external_body]
    pub fn from_bytes(b: &[u8; 64]) -> (r: Signature) ensures r.b@ == b@ { unimplemented!() }
}
pub struct Timestamp(pub u64);
impl Timestamp {
    #[verifier::external_body]
    pub fn from_be_bytes(b: [u8; 8]) -> Timestamp { unimplemented!() }
    #[verifier::external_body]
    pub fn to_be_bytes(self) -> [u8; 8] { unimplemented!() }
}
#[verifier::external_body]
pub fn signable(timestamp: u64, v: &[u8]) -> (r: Vec<u8>) ensures r@ == signable_spec(timestamp, v@) { unimplemented!() }
pub struct Packet;
impl Packet {
    #[verifier::external_body]
    pub fn parse(b: &[u8]) -> (r: Result<Packet, DnsErr>) ensures r is Ok <==> dns_parses(b@) { unimplemented!() }
}
#[verifier::external_body]
pub fn u64_from_be_bytes(b: [u8; 8]) -> u64 { u64::from_be_bytes(b) }
#[verifier::external_type_specification]
#[verifier::external_body]
pub struct ExTryFromSliceError(core::array::TryFromSliceError);

pub assume_specification<T: Clone> [<[T]>::to_vec] (s: &[T]) -> (r: Vec<T>) ensures r@ == s@;
pub struct SignedPacket { pub bytes: Vec<u8> }
impl SignedPacket {
    pub open spec fn wf(&self) -> bool {
        HEADER_SIZE <= self.bytes@.len() <= MAX_SIGNED_PACKET_SIZE
        && valid_point(self.bytes@.subrange(0, 32))
        && dns_parses(self.bytes@.subrange(104, self.bytes@.len() as int))
    }
}
}

verus! {
impl SignedPacket {
pub fn from_bytes(bytes: &[u8]) -> (r: Result<SignedPacket, SignedPacketVerifyError>)
        ensures r matches Ok(p) ==> p.wf() && p.bytes@ == bytes@
    {
        if bytes.len() < HEADER_SIZE {
            return Err(e!(SignedPacketVerifyError::TooShort { len: bytes.len() }));
        }
        if bytes.len() > MAX_SIGNED_PACKET_SIZE {
            return Err(e!(SignedPacketVerifyError::TooLarge { len: bytes.len() }));
        }

        let public_key = PublicKey::try_from(&bytes[..32])
            .map_err(|e| e!(SignedPacketVerifyError::InvalidKey, e))?;
        let signature =
            Signature::from_bytes(bytes[32..96].try_into().expect("64 bytes for signature"));
        let timestamp =
            u64_from_be_bytes(bytes[96..104].try_into().expect("8 bytes for timestamp"));
        let encoded_packet = &bytes[104..];

        public_key
            .verify(&signable(timestamp, encoded_packet), &signature)
            .map_err(|e| e!(SignedPacketVerifyError::SignatureError, e))?;

        Packet::parse(encoded_packet)
            .map_err(|e| e!(SignedPacketVerifyError::DnsError, anyerr!(e)))?;

        Ok(SignedPacket {
            bytes: bytes.to_vec(),
        })
    }
pub fn from_bytes_unchecked(bytes: &[u8]) -> (r: Result<SignedPacket, SignedPacketVerifyError>)
        ensures r matches Ok(p) ==> p.wf()
    {
        if bytes.len() < HEADER_SIZE {
            return Err(e!(SignedPacketVerifyError::TooShort { len: bytes.len() }));
        }
        if bytes.len() > MAX_SIGNED_PACKET_SIZE {
            return Err(e!(SignedPacketVerifyError::TooLarge { len: bytes.len() }));
        }
        Packet::parse(&bytes[104..])
            .map_err(|e| e!(SignedPacketVerifyError::DnsError, anyerr!(e)))?;
        Ok(SignedPacket {
            bytes: bytes.to_vec(),
        })
    }
pub fn from_parts_unchecked(
        public_key: &[u8],
        signature: &[u8],
        timestamp: Timestamp,
        encoded_packet: &[u8],
    ) -> (r: Result<Self, SignedPacketVerifyError>)
        ensures r matches Ok(p) ==> p.wf()
    {
        let mut bytes = Vec::with_capacity(HEADER_SIZE + encoded_packet.len());
        bytes.extend_from_slice(public_key);
        bytes.extend_from_slice(signature);
        bytes.extend_from_slice(&timestamp.to_be_bytes());
        bytes.extend_from_slice(encoded_packet);
        Self::from_bytes_unchecked(&bytes)
    }
pub fn public_key(&self) -> (r: PublicKey)
        requires self.wf()
    {
        PublicKey::try_from(&self.bytes[..32]).expect("valid public key in SignedPacket")
    }
pub fn timestamp(&self) -> (r: Timestamp)
        requires self.wf()
    {
        Timestamp::from_be_bytes(
            self.bytes[96..104]
                .try_into()
                .expect("8 bytes for timestamp"),
        )
    }
pub fn encoded_packet(&self) -> (r: &[u8])
        requires self.wf()
    {
        &self.bytes[104..]
    }
pub fn signature(&self) -> (r: Signature)
        requires self.wf()
    {
        Signature::from_bytes(
            self.bytes[32..96]
                .try_into()
                .expect("64 bytes for signature"),
        )
    }
}
}
fn main(){}
