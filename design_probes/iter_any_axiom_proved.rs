use vstd::prelude::*;
use vstd::std_specs::iter::IteratorSpec;
verus! {
pub struct T { pub d: bool, pub u: bool }
impl T {
    fn is_d(&self) -> (r: bool) ensures r == self.d { self.d }
    fn is_u(&self) -> (r: bool) ensures r == self.u { self.u }
}
pub uninterp spec fn slice_iter_seq<'a, T>(it: core::slice::Iter<'a, T>) -> Seq<&'a T>;

pub assume_specification<'a, T, F: FnMut(&'a T) -> bool> [<core::slice::Iter<'a, T> as Iterator>::any] (it: &mut core::slice::Iter<'a, T>, f: F) -> (r: bool)
    where core::slice::Iter<'a, T>: Sized
    ensures
        r ==> exists|i: int| 0 <= i < slice_iter_seq(*old(it)).len() && call_ensures(f, (#[trigger] slice_iter_seq(*old(it))[i],), true),
        !r ==> forall|i: int| 0 <= i < slice_iter_seq(*old(it)).len() ==> call_ensures(f, (#[trigger] slice_iter_seq(*old(it))[i],), false);

#[verifier::external_body]
pub broadcast proof fn axiom_slice_iter_seq<'a, T>(it: core::slice::Iter<'a, T>)
    ensures #[trigger] slice_iter_seq(it) == it.remaining()
{}

pub open spec fn has_both(s: Seq<T>) -> bool { exists|i: int| 0 <= i < s.len() && (#[trigger] s[i]).d && s[i].u }

fn f(v: &Vec<T>) -> (r: bool)
    ensures r == has_both(v@)
{
    broadcast use axiom_slice_iter_seq;
    let mut it = v.iter();
    let ghost s0 = it.remaining();
    assert(s0.len() == v@.len());
    assert(forall|i: int| 0 <= i < v@.len() ==> *(#[trigger] s0[i]) == v@[i]);
    assert(slice_iter_seq(it) == s0);
    let r = it.any(|t: &T| -> (b: bool) ensures b == (t.d && t.u) { t.is_d() && t.is_u() });
    if r {
        assert(exists|i: int| 0 <= i < s0.len() && (#[trigger] s0[i]).d && s0[i].u);
        let ghost i = choose|i: int| 0 <= i < s0.len() && (#[trigger] s0[i]).d && s0[i].u;
        assert(v@[i].d && v@[i].u);
        assert(has_both(v@));
    } else {
        assert(forall|i: int| 0 <= i < s0.len() ==> !((#[trigger] s0[i]).d && s0[i].u));
        assert(forall|i: int| 0 <= i < v@.len() ==> !((#[trigger] v@[i]).d && v@[i].u)) by {
            assert forall|i: int| 0 <= i < v@.len() implies !((#[trigger] v@[i]).d && v@[i].u) by { assert(*s0[i] == v@[i]); }
        }
        assert(!has_both(v@));
    }
    r
}
}
fn main(){}
