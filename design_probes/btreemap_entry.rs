use vstd::prelude::*;
verus! {
#[verifier::external_body]
#[verifier::reject_recursive_types(K)]
#[verifier::reject_recursive_types(V)]
pub struct BTreeMap<K, V> { k: core::marker::PhantomData<(K, V)> }
impl<K, V> View for BTreeMap<K, V> { type V = Map<K, V>; uninterp spec fn view(&self) -> Map<K, V>; }

#[verifier::reject_recursive_types(K)]
#[verifier::reject_recursive_types(V)]
pub struct Entry<'a, K, V> { pub map: &'a mut BTreeMap<K, V>, pub key: K }

impl<K, V> BTreeMap<K, V> {
    pub fn entry<'a>(&'a mut self, k: K) -> (r: Entry<'a, K, V>)
        ensures r.key == k, *r.map == *old(self), *final(r.map) == *final(self)
    { Entry { map: self, key: k } }
    #[verifier::external_body]
    pub fn slot_or_insert<'a>(&'a mut self, k: K, v: V) -> (r: &'a mut V)
        ensures
            *r == (if old(self)@.contains_key(k) { old(self)@[k] } else { v }),
            final(self)@ == old(self)@.insert(k, *final(r)),
    { unimplemented!() }
}
impl<'a, K, V> Entry<'a, K, V> {
    pub fn or_insert(self, v: V) -> (r: &'a mut V)
        ensures
            *r == (if old(self.map)@.contains_key(self.key) { old(self.map)@[self.key] } else { v }),
            final(self.map)@ == old(self.map)@.insert(self.key, *final(r)),
    { self.map.slot_or_insert(self.key, v) }
}

fn upd(list: &mut BTreeMap<u64, u64>, url: u64, latency: u64)
    ensures final(list)@ == old(list)@.insert(url, if old(list)@.contains_key(url) && old(list)@[url] <= latency { old(list)@[url] } else { latency })
{
    let old_latency = list.entry(url).or_insert(latency);
    if latency < *old_latency {
        *old_latency = latency;
    }
}
}
fn main(){}
