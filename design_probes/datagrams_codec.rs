use vstd::prelude::*;
use std::num::NonZeroU16;
macro_rules! ensure { ($cond:expr, $($t:tt)*) => { if !$cond { return Err(mk_err()); } }; }
macro_rules! e { ($($t:tt)*) => { mk_err() }; }
verus! {
pub struct Error;
#[verifier::external_body] pub fn mk_err() -> Error { Error }

#[verifier::external_body]
pub struct Bytes { inner: Vec<u8> }
impl View for Bytes { type V = Seq<u8>; uninterp spec fn view(&self) -> Seq<u8>; }
impl Bytes {
    #[verifier::external_body]
    pub fn len(&self) -> (r: usize) ensures r == self@.len() { unimplemented!() }
    #[verifier::external_body]
    pub fn is_empty(&self) -> (r: bool) ensures r == (self@.len() == 0) { unimplemented!() }
    #[verifier::external_body]
    pub fn get_u8(&mut self) -> (r: u8)
        requires old(self)@.len() >= 1
        ensures r == old(self)@[0], final(self)@ == old(self)@.subrange(1, old(self)@.len() as int)
    { unimplemented!() }
    #[verifier::external_body]
    pub fn get_u16(&mut self) -> (r: u16)
        requires old(self)@.len() >= 2
        ensures r == (old(self)@[0] as u16) * 256 + (old(self)@[1] as u16), final(self)@ == old(self)@.subrange(2, old(self)@.len() as int)
    { unimplemented!() }
    #[verifier::external_body]
    pub fn slice(&self, r: core::ops::RangeFrom<usize>) -> (o: Bytes)
        requires r.start <= self@.len()
        ensures o@ == self@.subrange(r.start as int, self@.len() as int)
    { unimplemented!() }
}
impl core::ops::Index<core::ops::RangeTo<usize>> for Bytes {
    type Output = [u8];
    #[verifier::external_body]
    fn index(&self, r: core::ops::RangeTo<usize>) -> (o: &[u8])
    { unimplemented!() }
}

pub mod noq_proto {
    use vstd::prelude::*;
    #[derive(Clone, Copy, PartialEq, Eq)]
    pub enum EcnCodepoint { Ect0 = 0b10, Ect1 = 0b01, Ce = 0b11 }
    impl EcnCodepoint {
        #[verifier::external_body]
        pub fn from_bits(x: u8) -> (r: Option<Self>)
            ensures r == (if x == 2 { Some(EcnCodepoint::Ect0) } else if x == 1 { Some(EcnCodepoint::Ect1) } else if x == 3 { Some(EcnCodepoint::Ce) } else { None::<EcnCodepoint> })
        { unimplemented!() }
    }
}

pub assume_specification<T, U, F: FnOnce(T) -> U> [Option::<T>::map_or] (o: Option<T>, d: U, f: F) -> (r: U)
    ensures match o { Some(v) => call_ensures(f, (v,), r), None => r == d };
pub struct Datagrams {
    pub ecn: Option<noq_proto::EcnCodepoint>,
    pub segment_size: Option<NonZeroU16>,
    pub contents: Bytes,
}

impl Datagrams {
    fn encoded_len(&self) -> (r: usize)
        requires self.contents@.len() <= 0x10_0000
        ensures r == 1 + (if self.segment_size.is_some() { 2int } else { 0 }) + self.contents@.len()
    {
        1 // ECN byte
        + self.segment_size.map_or(0, |_w| 2) // segment size, when None, then a packed representation is assumed
        + self.contents.len()
    }

    fn from_bytes(mut bytes: Bytes, is_batch: bool) -> (r: Result<Self, Error>)
        ensures r matches Ok(d) ==> d.contents@.len() + (if is_batch { 3int } else { 1 }) == bytes@.len()
    {
        if is_batch {
            // 1 bytes ECN, 2 bytes segment size
            ensure!(bytes.len() >= 3, Error::InvalidFrame);
        } else {
            ensure!(bytes.len() >= 1, Error::InvalidFrame);
        }

        let ecn_byte = bytes.get_u8();
        let ecn = noq_proto::EcnCodepoint::from_bits(ecn_byte);

        let segment_size = if is_batch {
            let segment_size = bytes.get_u16(); // length checked above
            NonZeroU16::new(segment_size)
        } else {
            None
        };

        Ok(Self {
            ecn,
            segment_size,
            contents: bytes,
        })
    }
}
}
fn main(){}
