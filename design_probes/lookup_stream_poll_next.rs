
use vstd::prelude::*;
macro_rules! debug { ($($t:tt)*) => {}; }
macro_rules! ready { ($e:expr $(,)?) => { match $e { core::task::Poll::Ready(t) => t, core::task::Poll::Pending => { return core::task::Poll::Pending; } } }; }
macro_rules! e {
    ($($err:tt)::+) => { $($err)::+ { meta: Meta } };
    ($($err:tt)::+ { $($body:tt)* }) => { $($err)::+ { meta: Meta, $($body)* } };
}
verus! {
use core::task::Poll;
#[verifier::accept_recursive_types(T)]
#[verifier::external_type_specification]
pub struct ExPoll<T>(core::task::Poll<T>);
pub mod std { pub mod task { #[verifier::external_body] pub struct Context<'a> { c: &'a u8 } } pub mod mem { pub use core::mem::take; } }

pub struct Error { pub id: int }
impl Clone for Error { #[verifier::external_body] fn clone(&self) -> (r: Error) ensures r == *self { unimplemented!() } }
pub struct LookupItem { pub id: int }
pub struct Meta;
pub enum AddressLookupFailed { NoServiceConfigured { meta: Meta }, NoResults { meta: Meta, errors: Vec<Error> } }
pub type Item = Result<Result<LookupItem, Error>, AddressLookupFailed>;

#[verifier::external_body]
pub struct MergeBounded { x: u8 }
pub struct Pin<P> { pub p: P }
impl<P> Pin<P> { pub fn new(p: P) -> (r: Pin<P>) ensures r.p == p { Pin { p } } }
impl<'a, 'b> Pin<&'a mut &'b mut MergeBounded> {
    #[verifier::external_body]
    pub fn poll_next(self, cx: &mut std::task::Context<'_>) -> (r: Poll<Option<Result<LookupItem, Error>>>) { unimplemented!() }
}

pub struct AddressLookupStream {
    pub streams: Option<MergeBounded>,
    pub errors: Vec<Error>,
    pub did_emit: bool,
    pub closed: bool,
}


pub assume_specification<T: Default> [core::mem::take] (dest: &mut T) -> (r: T)
    ensures r == *old(dest), call_ensures(T::default, (), *final(dest));

pub open spec fn step(a: AddressLookupStream, b: AddressLookupStream, r: Poll<Option<Item>>) -> bool {
    if a.closed { r == Poll::Ready(None::<Item>) && b.closed && b.errors@ == a.errors@ && b.did_emit == a.did_emit }
    else if a.streams is None { b.closed && r == Poll::Ready(Some(Err::<Result<LookupItem, Error>, _>(AddressLookupFailed::NoServiceConfigured { meta: Meta }))) }
    else { match r {
        Poll::Pending => !b.closed && b.errors@ == a.errors@ && b.did_emit == a.did_emit,
        Poll::Ready(Some(Ok(Ok(_)))) => !b.closed && b.did_emit && b.errors@ == a.errors@,
        Poll::Ready(Some(Ok(Err(e)))) => !b.closed && b.did_emit == a.did_emit && b.errors@ == a.errors@.push(e),
        Poll::Ready(Some(Err(AddressLookupFailed::NoResults { errors, .. }))) => b.closed && !a.did_emit && errors@ == a.errors@,
        Poll::Ready(Some(Err(AddressLookupFailed::NoServiceConfigured { .. }))) => false,
        Poll::Ready(None) => b.closed && a.did_emit,
    } }
}
}

verus! {
impl AddressLookupStream {
fn poll_next(
        &mut self,
        cx: &mut std::task::Context<'_>,
    ) -> (r: Poll<Option<Item>>)
        ensures step(*old(self), *final(self), r),
    {
        let this = self;
        if this.closed {
            return Poll::Ready(None);
        }
        let mut inner = match this.streams.as_mut() {
            Some(inner) => inner,
            None => {
                this.closed = true;
                return Poll::Ready(Some(Err(e!(AddressLookupFailed::NoServiceConfigured))));
            }
        };
        let item = match ready!(Pin::new(&mut inner).poll_next(cx)) {
            Some(Ok(item)) => {
                this.did_emit = true;
                Some(Ok(Ok(item)))
            }
            Some(Err(error)) => {
                debug!("address lookup error: {error:#}");
                this.errors.push(error.clone());
                Some(Ok(Err(error)))
            }
            None => {
                this.closed = true;
                if !this.did_emit {
                    let errors = std::mem::take(&mut this.errors);
                    Some(Err(e!(AddressLookupFailed::NoResults { errors })))
                } else {
                    None
                }
            }
        };
        Poll::Ready(item)
    }
}
}
fn main(){}
