use vstd::prelude::*;
verus! {
// shim: bytes::BufMut as a trait with a ghost written-bytes view
pub trait BufMut: Sized {
    spec fn written(&self) -> Seq<u8>;
    fn put_u8(&mut self, n: u8)
        ensures final(self).written() == old(self).written().push(n);
    fn put_u16(&mut self, n: u16)
        ensures final(self).written() == old(self).written().push((n / 256) as u8).push((n % 256) as u8);
    fn put_slice(&mut self, src: &[u8])
        ensures final(self).written() == old(self).written() + src@;
}

pub enum Status { Healthy, SameEndpointIdConnected, RateLimited, Unknown(u8) }

impl Status {
    fn write_to<O: BufMut>(&self, mut dst: O) -> (r: O)
        ensures r.written() == dst.written().push(match self { Status::Healthy => 0u8, Status::SameEndpointIdConnected => 1u8, Status::RateLimited => 2u8, Status::Unknown(d) => *d })
    {
        match self {
            Status::Healthy => dst.put_u8(0),
            Status::SameEndpointIdConnected => dst.put_u8(1),
            Status::RateLimited => dst.put_u8(2),
            Status::Unknown(discriminant) => dst.put_u8(*discriminant),
        }
        dst
    }
}
}
fn main(){}
