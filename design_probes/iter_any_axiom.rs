use vstd::prelude::*;
use vstd::std_specs::iter::IteratorSpec;
verus! {
pub struct T { pub d: bool, pub u: bool }
impl T {
    fn is_d(&self) -> (r: bool) ensures r == self.d { self.d }
    fn is_u(&self) -> (r: bool) ensures r == self.u { self.u }
}
pub uninterp spec fn slice_iter_seq<'a, T>(it: core::slice::Iter<'a, T>) -> Seq<&'a T>;

pub assume_specification<'a, T, F: FnMut(&'a T) -> bool> [<core::slice::Iter<'a, T> as Iterator>::any] (it: &mut core::slice::Iter<'a, T>, f: F) -> (r: bool)
    where core::slice::Iter<'a, T>: Sized
    ensures
        r ==> exists|i: int| 0 <= i < slice_iter_seq(*old(it)).len() && call_ensures(f, (#[trigger] slice_iter_seq(*old(it))[i],), true),
        !r ==> forall|i: int| 0 <= i < slice_iter_seq(*old(it)).len() ==> call_ensures(f, (#[trigger] slice_iter_seq(*old(it))[i],), false);

#[verifier::external_body]
pub broadcast proof fn axiom_slice_iter_seq<'a, T>(it: core::slice::Iter<'a, T>)
    ensures #[trigger] slice_iter_seq(it) == it.remaining()
{}

fn f(v: &Vec<T>) -> (r: bool)
    ensures r == exists|i: int| 0 <= i < v@.len() && v@[i].d && v@[i].u
{
    broadcast use axiom_slice_iter_seq;
    v.iter().any(|t: &T| -> (b: bool) ensures b == (t.d && t.u) { t.is_d() && t.is_u() })
}
}
fn main(){}
