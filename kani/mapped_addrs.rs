// Kani harnesses hosted in iroh::socket::mapped_addrs.  C18 (classification half).
use super::*;
use std::net::{Ipv4Addr, SocketAddrV4};

fn no_bt() -> bool {
    false
}

/// Complete: for EVERY IPv6 socket address (16 address bytes, port, flowinfo, scope id) the classification is
/// Mixed / Relay / Custom exactly for prefix fd15:070a:510b + subnet 0000/0001/0003 and carries the same address;
/// every other address is Ip(value) unchanged.
#[kani::proof]
#[kani::stub(n0_error::backtrace_enabled, no_bt)]
fn classify_v6_total() {
    let o: [u8; 16] = kani::any();
    let port: u16 = kani::any();
    let flow: u32 = kani::any();
    let scope: u32 = kani::any();
    let sa = SocketAddr::V6(SocketAddrV6::new(Ipv6Addr::from(o), port, flow, scope));
    // iroh's reserved range: the ULA prefix byte + n0's global id (the module's own constants)
    let in_range = o[0] == ADDR_PREFIXL
        && o[1] == ADDR_GLOBAL_ID[0]
        && o[2] == ADDR_GLOBAL_ID[1]
        && o[3] == ADDR_GLOBAL_ID[2]
        && o[4] == ADDR_GLOBAL_ID[3]
        && o[5] == ADDR_GLOBAL_ID[4];
    let sub = [o[6], o[7]];
    kani::cover!(
        in_range && sub == RELAY_MAPPED_SUBNET,
        "a relay-range address exists"
    );
    kani::cover!(!in_range, "an ordinary address exists");
    match MultipathMappedAddr::from(sa) {
        MultipathMappedAddr::Mixed(a) => {
            assert!(in_range && sub == ENDPOINT_ID_SUBNET);
            assert!(a.0 == Ipv6Addr::from(o));
        }
        MultipathMappedAddr::Relay(a) => {
            assert!(in_range && sub == RELAY_MAPPED_SUBNET);
            assert!(a.0 == Ipv6Addr::from(o));
        }
        MultipathMappedAddr::Custom(a) => {
            assert!(in_range && sub == CUSTOM_MAPPED_SUBNET);
            assert!(a.0 == Ipv6Addr::from(o));
        }
        MultipathMappedAddr::Ip(a) => {
            // an ordinary address is never one of the three synthetic kinds
            assert!(
                !(in_range
                    && (sub == ENDPOINT_ID_SUBNET
                        || sub == RELAY_MAPPED_SUBNET
                        || sub == CUSTOM_MAPPED_SUBNET))
            );
            assert!(a == sa);
        }
    }
}

/// The three kinds live in pairwise different subnets (otherwise one kind would be recognised as another).
#[kani::proof]
fn subnets_distinct() {
    assert!(ENDPOINT_ID_SUBNET != RELAY_MAPPED_SUBNET);
    assert!(ENDPOINT_ID_SUBNET != CUSTOM_MAPPED_SUBNET);
    assert!(RELAY_MAPPED_SUBNET != CUSTOM_MAPPED_SUBNET);
}

/// Complete: a synthetic address of each kind, sent through its private socket address, is recognised as that
/// kind with the same value (round trip through what QUIC sees).
#[kani::proof]
#[kani::stub(n0_error::backtrace_enabled, no_bt)]
fn private_socket_addr_roundtrip() {
    let o: [u8; 16] = kani::any();
    let ip = Ipv6Addr::from(o);
    if let Ok(m) = EndpointIdMappedAddr::try_from(ip) {
        match MultipathMappedAddr::from(m.private_socket_addr()) {
            MultipathMappedAddr::Mixed(x) => assert!(x == m),
            _ => assert!(false),
        }
    }
    if let Ok(m) = RelayMappedAddr::try_from(ip) {
        match MultipathMappedAddr::from(m.private_socket_addr()) {
            MultipathMappedAddr::Relay(x) => assert!(x == m),
            _ => assert!(false),
        }
    }
    if let Ok(m) = CustomMappedAddr::try_from(ip) {
        match MultipathMappedAddr::from(m.private_socket_addr()) {
            MultipathMappedAddr::Custom(x) => assert!(x == m),
            _ => assert!(false),
        }
    }
}

/// Complete: every IPv4 socket address is an ordinary address.
#[kani::proof]
#[kani::stub(n0_error::backtrace_enabled, no_bt)]
fn classify_v4_total() {
    let o: [u8; 4] = kani::any();
    let port: u16 = kani::any();
    let sa = SocketAddr::V4(SocketAddrV4::new(Ipv4Addr::from(o), port));
    match MultipathMappedAddr::from(sa) {
        MultipathMappedAddr::Ip(a) => assert!(a == sa),
        _ => assert!(false),
    }
}
