// Kani harnesses hosted in iroh_relay::server (child module: sees private items).  C13.
use super::*;

fn no_bt() -> bool {
    false
}

/// Complete (loop-free, full domain): for EVERY `char`, is_challenge_char is exactly
/// "ASCII letter, ASCII digit, '.', '-' or '_'".
#[kani::proof]
#[kani::stub(n0_error::backtrace_enabled, no_bt)]
fn challenge_char_spec() {
    let c: char = kani::any();
    let expected = ('a'..='z').contains(&c)
        || ('A'..='Z').contains(&c)
        || ('0'..='9').contains(&c)
        || c == '.'
        || c == '-'
        || c == '_';
    kani::cover!(expected, "some char is accepted");
    kani::cover!(!expected, "some char is rejected");
    assert!(is_challenge_char(c) == expected);
}
