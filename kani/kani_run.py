"""Kani engine: runs harness groups compiled in place through the #[cfg(kani)] hooks in /repo.

A group is a set of harnesses hosted in one module.  Loop-free harnesses over the full input domain are
complete proofs ("kani+cbmc complete"); harnesses with an unwinding bound are reported as bounded and never
counted as proved."""
import os
import re
import subprocess
import time

VERIF = os.path.dirname(os.path.dirname(os.path.abspath(__file__)))
TARGET = os.path.join(VERIF, '.cache', 'kani', 'target')
REPO = os.environ.get('VERIF_REPO', '/repo')
TIMEOUT_S = 900   # the groups take 30-100 s on the reference tree; a change that makes CBMC run away is reported as undecided

GROUPS = {
    'relay_server': dict(
        props=['C13'], crate='iroh-relay', features='server', host='iroh-relay/src/server.rs',
        harness_file='kani/relay_server.rs',
        harnesses=[
            dict(name='challenge_char_spec', props=['C13'],
                 what='for every char c: is_challenge_char(c) == (c is an ASCII letter, ASCII digit, . - or _)',
                 fn='is_challenge_char'),
        ]),
    'mapped_addrs': dict(
        props=['C18'], crate='iroh', features=None, host='iroh/src/socket/mapped_addrs.rs',
        harness_file='kani/mapped_addrs.rs',
        harnesses=[
            dict(name='classify_v6_total', props=['C18'],
                 what='every IPv6 socket address is classified Mixed/Relay/Custom exactly for fd15:070a:510b:000{0,1,3}::/64 with the same address, else Ip(unchanged)',
                 fn='MultipathMappedAddr::from(SocketAddr)'),
            dict(name='subnets_distinct', props=['C18'], what='the three synthetic kinds use pairwise different subnet ids', fn='mapped_addrs constants'),
            dict(name='private_socket_addr_roundtrip', props=['C18'],
                 what='for every address of a synthetic kind: classifying its private socket address yields the same kind and value',
                 fn='MappedAddr::private_socket_addr + MultipathMappedAddr::from'),
            dict(name='classify_v4_total', props=['C18'],
                 what='every IPv4 socket address is classified Ip(unchanged)', fn='MultipathMappedAddr::from(SocketAddr)'),
        ]),
    'ip_config': dict(
        props=['C19'], crate='iroh', features=None, host='iroh/src/socket/transports/ip.rs',
        harness_file='kani/ip_config.rs',
        harnesses=[
            dict(name='v4_send_addr_rule', props=['C19'],
                 what='IPv4 socket admissibility: source given => same family and (wildcard or equal); no source => prefix containment; default-route rule by family',
                 fn='ip::Config::{is_valid_send_addr,is_valid_default_addr}'),
            dict(name='v6_send_addr_rule', props=['C19'],
                 what='IPv6 socket admissibility: as v4, plus link-local destinations admitted on the socket with the same scope id',
                 fn='ip::Config::{is_valid_send_addr,is_valid_default_addr}'),
        ]),
}


def groups_for(prop):
    return [g for g, d in GROUPS.items() if prop in d['props']]


def all_props():
    s = set()
    for d in GROUPS.values():
        s.update(d['props'])
    return s


def hook_present(group):
    d = GROUPS[group]
    try:
        txt = open(os.path.join(REPO, d['host'])).read()
    except OSError:
        return False
    return f'/verif/{d["harness_file"]}' in txt and 'cfg(kani)' in txt


def _cargo_kani(d, harnesses, extra=None):
    cmd = ['cargo', 'kani', '-p', d['crate']]
    if d.get('features'):
        cmd += ['--features', d['features']]
    cmd += ['-Z', 'stubbing']
    for h in harnesses:
        cmd += ['--harness', h]
    cmd += extra or []
    env = dict(os.environ, CARGO_NET_OFFLINE='true', CARGO_TARGET_DIR=TARGET)
    t0 = time.time()
    try:
        p = subprocess.run(cmd, cwd=REPO, env=env, capture_output=True, text=True, timeout=TIMEOUT_S)
        out = p.stdout + '\n' + p.stderr
        rc = p.returncode
        timed_out = False
    except subprocess.TimeoutExpired as e:
        out = (e.stdout or '') if isinstance(e.stdout, str) else ''
        rc = -1
        timed_out = True
    return ' '.join(cmd), out, rc, time.time() - t0, timed_out


def parse(out):
    """-> {harness short name: dict(status, ms, covers, failed_checks)}"""
    res = {}
    cur = None
    block = []
    blocks = {}
    for ln in out.split('\n'):
        m = re.match(r'Checking harness (\S+?)\.\.\.', ln)
        if m:
            cur = m.group(1).split('::')[-1]
            blocks[cur] = []
            continue
        if cur is not None:
            blocks[cur].append(ln)
    for name, lines in blocks.items():
        txt = '\n'.join(lines)
        st = 'undecided'
        if 'VERIFICATION:- SUCCESSFUL' in txt:
            st = 'ok'
        elif 'VERIFICATION:- FAILED' in txt:
            st = 'failed'
        ms = None
        m = re.search(r'Verification Time: ([0-9.]+)s', txt)
        if m:
            ms = int(float(m.group(1)) * 1000)
        cov = re.search(r'\*\* (\d+) of (\d+) cover properties satisfied', txt)
        failed = []
        # failed checks: "Check N: name\n\t - Status: FAILURE\n\t - Description: ..."
        for mm in re.finditer(r'Check \d+: (\S+)\s*\n\s*- Status: FAILURE\s*\n\s*- Description: "([^"]*)"\s*\n\s*- Location: ([^\n]*)', txt):
            failed.append(dict(check=mm.group(1), description=mm.group(2), location=mm.group(3).strip()))
        unwinding = 'unwinding assertion' in txt and any('unwinding' in f['description'] for f in failed)
        res[name] = dict(status=st, ms=ms, covers=(int(cov.group(1)), int(cov.group(2))) if cov else None,
                         failed_checks=failed, unwinding_failure=unwinding, raw_tail='\n'.join(lines[-30:]))
    return res


def run_group(group, prop, tier='quick'):
    t0 = time.time()
    d = GROUPS[group]
    res = dict(status='undecided', reason=None, harnesses=[], failures=[], cmds=[], trusted_base=[], functions=[])
    res['trusted_base'] = ['Kani 0.68 / CBMC 6.11 and their models of the Rust standard library',
                           'stub: n0_error::backtrace_enabled -> false (keeps getenv/OnceLock out of the model; affects error construction only)']
    if not hook_present(group):
        res['reason'] = f'verification hook missing in {d["host"]} (lost anchor)'
        res['wall_s'] = round(time.time() - t0, 2)
        return res
    wanted = [h for h in d['harnesses'] if prop in h['props'] and (tier == 'thorough' or not h.get('thorough_only'))]
    names = [h['name'] for h in wanted]
    cmd, out, rc, wall, timed_out = _cargo_kani(d, names)
    res['cmds'].append(f'(cd {REPO}) CARGO_TARGET_DIR={TARGET} {cmd}')
    if timed_out:
        res['reason'] = f'cargo kani timed out after {TIMEOUT_S}s'
        res['wall_s'] = round(time.time() - t0, 2)
        return res
    parsed = parse(out)
    undecided = []
    for h in wanted:
        p = parsed.get(h['name'])
        entry = dict(name=h['name'], what=h['what'], src=f'{d["host"]} ({h["fn"]})', bounded=bool(h.get('bound')), bound=h.get('bound'))
        if p is None:
            entry['status'] = 'undecided'
            undecided.append(f'{h["name"]}: no verdict in cargo kani output')
        else:
            entry['status'] = p['status']
            entry['ms'] = p['ms']
            entry['covers'] = p['covers']
            if p['status'] == 'ok' and p['covers'] and p['covers'][0] != p['covers'][1]:
                entry['status'] = 'undecided'
                undecided.append(f'{h["name"]}: a cover property is unsatisfiable (vacuous harness)')
            if p['status'] == 'failed':
                if p['unwinding_failure'] and not [f for f in p['failed_checks'] if 'unwinding' not in f['description']]:
                    entry['status'] = 'undecided'
                    undecided.append(f'{h["name"]}: unwinding assertion failed (bound too small)')
                else:
                    # concrete counterexample
                    concrete = None
                    cmd2, out2, rc2, wall2, to2 = _cargo_kani(d, [h['name']], ['-Z', 'concrete-playback', '--concrete-playback=print'])
                    res['cmds'].append(f'(cd {REPO}) {cmd2}')
                    m = re.search(r'(#\[test\]\s*\nfn kani_concrete_playback[\s\S]*?\n\}\n)', out2)
                    if m:
                        concrete = m.group(1)
                    res['failures'].append(dict(
                        obligation=h['name'], kind='kani-assertion', props=h['props'],
                        message='; '.join(f'{f["description"]} @ {f["location"]}' for f in p['failed_checks'][:4]) or 'verification failed',
                        clause=h['what'], src=entry['src'], rendered=p['raw_tail'], concrete=concrete, gen_text=None))
            if p['status'] == 'undecided':
                undecided.append(f'{h["name"]}: no verdict')
        res['harnesses'].append(entry)
        res['functions'].append(dict(unit=f'kani:{group}', function=h['fn'], file=d['host'], harness=h['name']))
    if not parsed and rc != 0:
        tail = [l for l in out.split('\n') if l.startswith('error')][:5]
        res['reason'] = 'cargo kani failed to build: ' + ' | '.join(tail)
    elif undecided:
        res['reason'] = '; '.join(undecided)
    elif res['failures']:
        res['status'] = 'failed'
        res['reason'] = f'{len(res["failures"])} harness(es) failed'
    else:
        res['status'] = 'ok'
    res['wall_s'] = round(time.time() - t0, 2)
    return res


if __name__ == '__main__':
    import json
    import sys
    g = sys.argv[1]
    r = run_group(g, GROUPS[g]['props'][0], sys.argv[2] if len(sys.argv) > 2 else 'quick')
    for f in r['failures']:
        f.pop('rendered', None)
    print(json.dumps(r, indent=1))
