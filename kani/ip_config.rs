// Kani harnesses hosted in iroh::socket::transports::ip.  C19 (per-socket admissibility predicates).
use super::*;
use std::net::{Ipv4Addr, Ipv6Addr, SocketAddrV4, SocketAddrV6};

fn no_bt() -> bool {
    false
}

/// Complete: every IPv4 bind config (any prefix length 0..=32), source and destination.
#[kani::proof]
#[kani::stub(n0_error::backtrace_enabled, no_bt)]
fn v4_send_addr_rule() {
    let a: [u8; 4] = kani::any();
    let p: u8 = kani::any();
    kani::assume(p <= 32);
    let ip_net = Ipv4Net::new(Ipv4Addr::from(a), p).unwrap();
    let is_default: bool = kani::any();
    let cfg = Config::V4 {
        ip_net,
        port: kani::any(),
        is_required: kani::any(),
        is_default,
    };
    let d: [u8; 4] = kani::any();
    let dst = SocketAddr::V4(SocketAddrV4::new(Ipv4Addr::from(d), kani::any()));
    // no source: the bound prefix must contain the destination
    let r = cfg.is_valid_send_addr(None, dst);
    let mask: u32 = if p == 0 {
        0
    } else {
        u32::MAX << (32 - p as u32)
    };
    let expect = (u32::from_be_bytes(a) & mask) == (u32::from_be_bytes(d) & mask);
    kani::cover!(expect && p > 0, "a contained destination exists");
    assert_eq!(r, expect);
    // with a source: same family and (wildcard or equal address)
    let s: [u8; 4] = kani::any();
    let r2 = cfg.is_valid_send_addr(Some(IpAddr::V4(Ipv4Addr::from(s))), dst);
    assert_eq!(r2, a == [0, 0, 0, 0] || a == s);
    let s6: [u8; 16] = kani::any();
    assert!(!cfg.is_valid_send_addr(Some(IpAddr::V6(Ipv6Addr::from(s6))), dst));
    // other-family destination without source: never
    let d6: [u8; 16] = kani::any();
    let dst6 = SocketAddr::V6(SocketAddrV6::new(
        Ipv6Addr::from(d6),
        kani::any(),
        kani::any(),
        kani::any(),
    ));
    assert!(!cfg.is_valid_send_addr(None, dst6));
    // default-route rule: by family of the source if given, else of the destination
    assert_eq!(
        cfg.is_valid_default_addr(Some(IpAddr::V4(Ipv4Addr::from(s))), dst6),
        is_default
    );
    assert_eq!(cfg.is_valid_default_addr(None, dst), is_default);
    assert!(!cfg.is_valid_default_addr(None, dst6));
    assert!(!cfg.is_valid_default_addr(Some(IpAddr::V6(Ipv6Addr::from(s6))), dst));
}

/// Complete: every IPv6 bind config (any prefix length 0..=128, any scope id), source and destination.
#[kani::proof]
#[kani::stub(n0_error::backtrace_enabled, no_bt)]
fn v6_send_addr_rule() {
    let a: [u8; 16] = kani::any();
    let p: u8 = kani::any();
    kani::assume(p <= 128);
    let ip_net = Ipv6Net::new(Ipv6Addr::from(a), p).unwrap();
    let scope: u32 = kani::any();
    let is_default: bool = kani::any();
    let cfg = Config::V6 {
        ip_net,
        scope_id: scope,
        port: kani::any(),
        is_required: kani::any(),
        is_default,
    };
    let d: [u8; 16] = kani::any();
    let dscope: u32 = kani::any();
    let dst = SocketAddr::V6(SocketAddrV6::new(
        Ipv6Addr::from(d),
        kani::any(),
        kani::any(),
        dscope,
    ));
    let r = cfg.is_valid_send_addr(None, dst);
    let mask: u128 = if p == 0 {
        0
    } else {
        u128::MAX << (128 - p as u32)
    };
    let contains = (u128::from_be_bytes(a) & mask) == (u128::from_be_bytes(d) & mask);
    let link_local = d[0] == 0xfe && (d[1] & 0xc0) == 0x80;
    kani::cover!(
        link_local && !contains && scope == dscope,
        "link-local destination on the socket's scope"
    );
    assert_eq!(r, contains || (link_local && scope == dscope));
    let s: [u8; 16] = kani::any();
    let r2 = cfg.is_valid_send_addr(Some(IpAddr::V6(Ipv6Addr::from(s))), dst);
    assert_eq!(r2, a == [0u8; 16] || a == s);
    let s4: [u8; 4] = kani::any();
    assert!(!cfg.is_valid_send_addr(Some(IpAddr::V4(Ipv4Addr::from(s4))), dst));
    assert_eq!(cfg.is_valid_default_addr(None, dst), is_default);
    assert_eq!(
        cfg.is_valid_default_addr(Some(IpAddr::V6(Ipv6Addr::from(s))), dst),
        is_default
    );
    assert!(!cfg.is_valid_default_addr(Some(IpAddr::V4(Ipv4Addr::from(s4))), dst));
}
